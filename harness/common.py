"""Shared harness vocabulary: slots, skeletons, history construction through the real rp2 constructors."""
import importlib
import os
from datetime import date

from symx.api import us_of

HERE = os.path.dirname(os.path.abspath(__file__))
INI = os.path.join(HERE, "data", "h.ini")

EARN_TYPES = ("AIRDROP", "HARDFORK", "INCOME", "INTEREST", "MINING", "STAKING", "WAGES")
IN_TYPES = ("BUY", "GIFT", "DONATE") + EARN_TYPES
OUT_TYPES = ("SELL", "GIFT", "DONATE", "FEE", "LOST", "STAKING")
ALL_TYPES = ("AIRDROP", "BUY", "DONATE", "FEE", "GIFT", "HARDFORK", "INCOME", "INTEREST", "LOST", "MINING", "MOVE", "SELL", "STAKING", "WAGES")

AMOUNT_K = 11  # amounts are multiples of 1e-11 (what the parser's %.11f produces)
PRICE_K = 4
AMOUNT_MAX = 10**20  # 1e9 units
PRICE_MAX = 10**10  # 1e6

# short kind codes used in skeleton strings
KIND = {
    "B": ("IN", "BUY"),
    "G": ("IN", "GIFT"),
    "D": ("IN", "DONATE"),
    "I": ("IN", "INTEREST"),
    "A": ("IN", "AIRDROP"),
    "S": ("OUT", "SELL"),
    "F": ("OUT", "FEE"),
    "L": ("OUT", "LOST"),
    "g": ("OUT", "GIFT"),
    "d": ("OUT", "DONATE"),
    "M": ("INTRA", "MOVE"),
    "k": ("OUT", "STAKING"),
    "T": ("IN", "STAKING"),
}


def slot(table, typ, **kw):
    s = {"table": table, "type": typ, "asset": "B1", "ex": "X1", "ho": "H1", "ex2": "X2", "ho2": "H1", "fee": "none"}
    s.update(kw)
    return s


def slots_of(code, **kw):
    """'BIS' -> [BUY, INTEREST, SELL] slots with defaults; M = transfer with a (symbolic, >= 1) fee"""
    out = []
    for ch in code:
        table, typ = KIND[ch]
        s = slot(table, typ, **kw)
        if ch == "M":
            s["fee"] = "pos"
        if ch == "F":
            s["fee"] = "pos"
        out.append(s)
    return out


def country_of(name, period=None):
    if name == "generic":
        os.environ["CURRENCY_CODE"] = "usd"
        os.environ["LONG_TERM_CAPITAL_GAINS"] = str(period if period is not None else 365)
        return importlib.import_module("rp2.plugin.country.generic").Generic()
    mod = importlib.import_module("rp2.plugin.country." + name)
    return getattr(mod, name.upper())()


def method_tree(schedule):
    """schedule: {year: method_name} -> AVLTree year -> fresh AccountingMethod object (as rp2_main builds it)"""
    from prezzemolo.avl_tree import AVLTree  # pylint: disable=import-outside-toplevel

    tree = AVLTree()
    for year, name in schedule.items():
        tree.insert_node(int(year), importlib.import_module("rp2.plugin.accounting_method." + name).AccountingMethod())
    return tree


def method_for_year(schedule, year):
    best = None
    for y, name in schedule.items():
        if int(y) <= year and (best is None or int(y) > best[0]):
            best = (int(y), name)
    return best[1] if best else None


class Hist:
    """symbolic (or concrete) history: per-slot variables plus the rp2 transaction objects built from them"""

    def __init__(self, S, slots, years, prefix="", tz=False, ordered=True, shared_off=None, shared_sym=None, fixed_t=None, fixed_off=None, price_min=1, price_k=PRICE_K, price_max=PRICE_MAX, amount_max=AMOUNT_MAX):
        self.S = S
        self.slots = slots
        self.years = tuple(years)
        n = len(slots)
        t_lo, t_hi = us_of(self.years[0]), us_of(self.years[-1] + 1) - 1
        self.t_lo, self.t_hi = t_lo, t_hi
        self.t, self.off, self.a, self.p, self.f = [], [], [], [], []
        self.w = {}  # slot -> exchange-supplied fiat_in_with_fee (cents), for acquisitions marked wf=True
        self.price_k = price_k
        for i, s in enumerate(slots):
            nm = "%s%d" % (prefix, i)
            if fixed_t is not None:
                # concrete instants (reports that render month/day): only amounts, prices and filter dates stay symbolic
                off = fixed_off[i] if fixed_off is not None else 0
                t = fixed_t[i]
            elif tz:
                # local wall-clock time stays inside the window; the instant is local - offset
                off = S.int("o" + nm, -720, 840)
                t = S.int("t" + nm, t_lo - 840 * 60 * 10**6, t_hi + 720 * 60 * 10**6)
                S.assume_cmp(t + off * (60 * 10**6), ">=", t_lo)
                S.assume_cmp(t + off * (60 * 10**6), "<=", t_hi)
            elif shared_off is not None and (shared_sym if shared_sym is not None else not isinstance(shared_off, int)):
                # one symbolic offset shared by every slot: local dates stay monotone in the instant
                off = shared_off
                t = S.int("t" + nm, t_lo - 840 * 60 * 10**6, t_hi + 720 * 60 * 10**6)
                S.assume_cmp(t + off * (60 * 10**6), ">=", t_lo)
                S.assume_cmp(t + off * (60 * 10**6), "<=", t_hi)
            else:
                off = shared_off if shared_off is not None else 0
                t = S.int("t" + nm, t_lo, t_hi)
            self.t.append(t)
            self.off.append(off)
            self.a.append(S.int("a" + nm, 0 if s.get("a0") else 1, amount_max))
            self.p.append(S.int("p" + nm, price_min, price_max))
            if s.get("wf") and s["table"] == "IN":
                self.w[i] = S.int("w" + nm, 1, 10**13)
            if s["fee"] == "pos":
                self.f.append(S.int("f" + nm, 1, amount_max))
            elif s["fee"] == "any":
                self.f.append(S.int("f" + nm, 0, amount_max))
            else:
                self.f.append(0)
        if ordered:
            for i in range(1, n):
                S.assume_cmp(self.t[i - 1], "<=", self.t[i])
        self.txs = [None] * n

    def row(self, i):
        return self.slots[i].get("row", 10 + i)

    def build(self, cfg, asset="B1"):
        """construct the transactions with the real constructors and return InputData (as parse_ods would)"""
        from rp2.in_transaction import InTransaction  # pylint: disable=import-outside-toplevel
        from rp2.input_data import InputData  # pylint: disable=import-outside-toplevel
        from rp2.intra_transaction import IntraTransaction  # pylint: disable=import-outside-toplevel
        from rp2.out_transaction import OutTransaction  # pylint: disable=import-outside-toplevel
        from rp2.rp2_decimal import ZERO  # pylint: disable=import-outside-toplevel
        from rp2.transaction_set import TransactionSet  # pylint: disable=import-outside-toplevel

        S = self.S
        ins = TransactionSet(cfg, "IN", asset)
        outs = TransactionSet(cfg, "OUT", asset)
        intras = TransactionSet(cfg, "INTRA", asset)
        for i, s in enumerate(self.slots):
            if s["asset"] != asset:
                continue
            ts = S.ts(self.t[i], self.off[i])
            price = S.dec(self.p[i], self.price_k)
            amt = S.dec(self.a[i], AMOUNT_K)
            if s["table"] == "IN":
                fiat_fee = S.dec(self.f[i], 2) if s["fee"] != "none" else ZERO
                if i in self.w:
                    # the exchange's own total for the acquisition: rp2 warns when it differs from amount x price + fee and uses it
                    tx = InTransaction(cfg, ts, asset, s["ex"], s["ho"], s["type"], price, amt, fiat_fee=fiat_fee, fiat_in_with_fee=S.dec(self.w[i], 2), row=self.row(i), unique_id=s.get("uid"))
                else:
                    tx = InTransaction(cfg, ts, asset, s["ex"], s["ho"], s["type"], price, amt, fiat_fee=fiat_fee, row=self.row(i), unique_id=s.get("uid"))
                ins.add_entry(tx)
            elif s["table"] == "OUT":
                fee = S.dec(self.f[i], AMOUNT_K) if s["fee"] != "none" else ZERO
                if s["type"] == "FEE":
                    tx = OutTransaction(cfg, ts, asset, s["ex"], s["ho"], s["type"], price, ZERO, fee, row=self.row(i), unique_id=s.get("uid"))
                else:
                    tx = OutTransaction(cfg, ts, asset, s["ex"], s["ho"], s["type"], price, amt, fee, row=self.row(i), unique_id=s.get("uid"))
                outs.add_entry(tx)
            else:
                recv = S.dec(self.a[i], AMOUNT_K)
                sent = S.dec(self.a[i] + self.f[i], AMOUNT_K)
                tx = IntraTransaction(cfg, ts, asset, s["ex"], s["ho"], s["ex2"], s["ho2"], price, sent, recv, row=self.row(i), unique_id=s.get("uid"))
                intras.add_entry(tx)
            self.txs[i] = tx
        return InputData(asset, ins, outs, intras, cfg.from_date, cfg.to_date)

    # ---- ground truth from the input variables (independent of the rp2 objects)
    def is_lot(self, i):
        return self.slots[i]["table"] == "IN"

    def is_earn(self, i):
        return self.slots[i]["table"] == "IN" and self.slots[i]["type"] in EARN_TYPES

    def is_out(self, i):
        return self.slots[i]["table"] == "OUT"

    def is_move(self, i):
        return self.slots[i]["table"] == "INTRA"

    def need(self, i):
        """crypto amount (1e-11 units) a disposal takes out of the lots"""
        s = self.slots[i]
        if s["table"] == "OUT":
            return self.f[i] if s["type"] == "FEE" else self.a[i] + self.f[i]
        if s["table"] == "INTRA":
            return self.f[i]
        return 0

    def describe(self, model=None):
        out = []
        for i, s in enumerate(self.slots):
            out.append("%s:%s" % (s["table"], s["type"]))
        return out


def make_cfg(country="us", from_date=None, to_date=None, allow_negative=True, period=None):
    from rp2.configuration import Configuration  # pylint: disable=import-outside-toplevel

    kw = {}
    if from_date is not None:
        kw["from_date"] = from_date
    if to_date is not None:
        kw["to_date"] = to_date
    return Configuration(INI, country_of(country, period), allow_negative_balances=allow_negative, **kw)


def run_tax(cfg, schedule, input_data):
    from rp2.accounting_engine import AccountingEngine  # pylint: disable=import-outside-toplevel
    from rp2.tax_engine import compute_tax  # pylint: disable=import-outside-toplevel

    return compute_tax(cfg, AccountingEngine(method_tree(schedule)), input_data)


MIN_DATE = date(1970, 1, 1)
MAX_DATE = date(9999, 12, 31)
