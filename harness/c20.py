"""C20 Japanese tax report: one sheet per asset-year, chained in year order.

Unit driven: compute_tax (JP country plugin) for two assets + rp2.plugin.report.jp.tax_report_jp.Generator().generate on
real ezodf, observed at _fill_cell.  The calendar year of every transaction is a solver variable over a 4-year window,
realised by forking (month and day are concrete: the report prints them); amounts, prices and fees are symbolic.
Enumerated: skeletons of the two assets, language (en, kl).
"""
import re

from symx.api import us_of

from . import reportlib
from .common import Hist, make_cfg, method_tree, slot
from .reportlib import tr

PROPS = ("C20",)
BUDGET = {"quick": 900, "thorough": 1500}
CHUNK = 40
YEARS = (2019, 2020, 2021, 2022)
KINDS = {"B": ("IN", "BUY"), "I": ("IN", "INTEREST"), "S": ("OUT", "SELL"), "M": ("INTRA", "MOVE"), "m": ("INTRA", "MOVE"), "G": ("IN", "GIFT"), "d": ("OUT", "DONATE")}  # m = transfer without fee


def jobs(tier):
    js = []
    for lang in ("en", "kl"):
        for c1, c2 in [("BS", "B"), ("BBS", "B"), ("BSB", "BS"), ("BIS", "B"), ("BMS", "B"), ("BmS", "B")] if tier == "quick" else [("BS", "B"), ("BBS", "B"), ("BSB", "BS"), ("BIS", "B"), ("BMS", "B"), ("BmS", "B"), ("BBSS", "BS"), ("BSBS", "B"), ("BGS", "BS"), ("BSS", "BSS")]:
            js.append({"c1": c1, "c2": c2, "lang": lang})
    # two donations, free to fall into one year: each is listed with its own donated yen value ("0 (￥x)")
    js.append({"c1": "Bdd", "c2": "B", "lang": "en"})
    if tier == "thorough":
        js.append({"c1": "BdSd", "c2": "B", "lang": "en"})
    # timestamps within hours of New Year with non-UTC offsets: the year is the one written in the timestamp
    js.append({"c1": "BS", "c2": "B", "lang": "en", "edge": True})
    js.append({"c1": "BBS", "c2": "B", "lang": "en", "edge": True})
    return js


def describe(spec):
    return "B1=%s B2=%s lang=%s%s" % (spec["c1"], spec["c2"], spec["lang"], " new-year-offsets" if spec.get("edge") else "")


def weight(spec):
    return len(spec["c1"]) * 10 + len(spec["c2"])


def bounds(tier):
    return {"years": "every assignment of the transactions of asset B1 to the years 2019-2022 (sparse years, disposal-only years, sheet order different from year order); asset B2 in fixed years", "history": "2-3 transactions for B1, 1-2 for B2" if tier == "quick" else "2-4 for B1, 1-3 for B2", "languages": ["en", "kl (test locale)"], "amounts": "k*1e-11 in [1e-11, 1e9]", "prices": "k*1e-4 in [1e-4, 1e6]", "outside": ["month/day/time of day (concrete)", "the spreadsheet formulas' values (only which sheet and cell they reference)", "the binary rounding of the donated amount (formatted through float: the printed text is compared with a tolerance of half a yen cent on real code and stands for the exact value in the encoding)", "language ja (no templates shipped: C16 / D3)"]}


def assumptions():
    return ["the year of each B1 transaction is a symbolic variable realised exhaustively; within one history later slots never get an earlier year than an uncovered disposal needs (histories that rp2 rejects are not inspected)", "allow_negative_balances=True"]


def _donation(S, cell, want, what):
    """the sold-yen cell of a donation reads '0 (￥<donated yen, 2 decimals>)': <donated yen> is this row's amount x price"""
    parts = list(getattr(cell, "parts", [cell]))
    if len(parts) == 1 and type(parts[0]) is str:  # real code: parse the printed number  # pylint: disable=unidiomatic-typecheck
        m = re.match(r"^0 \(\uffe5([0-9,]+\.[0-9]{2})\)$", parts[0])
        S.expect(m is not None, "C20", "donation-text", "%s: sold-yen cell reads %r" % (what, parts[0]))
        from decimal import Decimal  # pylint: disable=import-outside-toplevel

        shown = S.ex(Decimal(m.group(1).replace(",", "")))
        d = shown - want
        S.expect(not d * 1000 > 5 + want / 10**9 and not d * 1000 < -5 - want / 10**9, "C20", "donation", "%s: the cell shows %s, the donated value is %s" % (what, parts[0], want))
        return
    S.expect(len(parts) == 3 and parts[0] == "0 (\uffe5" and parts[2] == ")" and type(parts[1]).__name__ == "_Formatted" and parts[1].spec == "float:0,.2f", "C20", "donation-text", "%s: sold-yen cell is %r" % (what, parts))
    # two decimals are printed: the text stands for a value within half a cent of the formatted number
    d = S.ex(parts[1].value) - want
    S.expect(not d * 1000 > 5 and not d * 1000 < -5, "C20", "donation", "%s: the donated value shown is not this row's amount x price" % what)


def run(S, spec):
    from rp2.accounting_engine import AccountingEngine  # pylint: disable=import-outside-toplevel
    from rp2.rp2_error import RP2ValueError  # pylint: disable=import-outside-toplevel
    from rp2.tax_engine import compute_tax  # pylint: disable=import-outside-toplevel

    S.set_years(list(YEARS))
    s1 = [slot(*KINDS[ch], asset="B1", fee="pos" if ch == "M" else "none") for ch in spec["c1"]]
    s2 = [slot(*KINDS[ch], asset="B2", fee="pos" if ch == "M" else "none") for ch in spec["c2"]]
    years1 = []
    for i, s in enumerate(s1):
        s["row"] = 10 + i
        y = S.value(S.int("y%d" % i, YEARS[0], YEARS[-1]))
        years1.append(y)
    for i, s in enumerate(s2):
        s["row"] = 10 + i
    years2 = [2020, 2022, 2022][: len(s2)]
    # slot i happens on a fixed month/day of its year; later slots have later month/days, so inside one year sheet order = slot order
    t1 = [us_of(years1[i], 2 + 3 * i, 5 + i, 10 + i) for i in range(len(s1))]
    t2 = [us_of(years2[i], 3 + 2 * i, 20 + i, 9) for i in range(len(s2))]
    off1 = None
    if spec.get("edge"):
        # even slots: 31 December 22:15+i at -05:00 (already next year in UTC); odd slots: 1 January 05:30 at +09:00 (still last year in UTC)
        t1 = [(us_of(years1[i], 12, 31, 22, 15 + i) + 5 * 3600 * 10**6) if i % 2 == 0 else (us_of(years1[i], 1, 1, 5, 30) - 9 * 3600 * 10**6) for i in range(len(s1))]
        off1 = [-300 if i % 2 == 0 else 540 for i in range(len(s1))]
    h1 = Hist(S, s1, list(YEARS), prefix="x", fixed_t=t1, fixed_off=off1, ordered=False)
    h2 = Hist(S, s2, list(YEARS), prefix="y", fixed_t=t2, ordered=False)
    cfg = make_cfg("jp", allow_negative=True)
    engine = AccountingEngine(method_tree({"2019": "fifo"}))
    cds = {}
    for asset, h in (("B1", h1), ("B2", h2)):
        try:
            cds[asset] = compute_tax(cfg, engine, h.build(cfg, asset))
        except RP2ValueError:
            return "error"
    rec, err = reportlib.generate(S, "jp.tax_report_jp", cfg.country, cds, {1970: "fifo"}, cfg.from_date, cfg.to_date, lang=spec["lang"])
    if err is not None:
        S.fail("C20", "generator-exception", "%s: %s" % (type(err).__name__, str(err)[:200]), tag=type(err).__name__)
    hists = {"B1": (h1, years1), "B2": (h2, years2)}
    sheet_of = {}
    for asset, (h, ys) in hists.items():
        for y in sorted(set(ys)):
            sheet_of[(asset, y)] = tr("{}_{}").format(asset, y)
    summary_of = {y: tr("{}_Summary").format(y) for y in {y for (_a, y) in sheet_of}}
    written = set(rec.sheets) - {tr("Legend")}
    S.expect(written == set(sheet_of.values()) | set(summary_of.values()), "C20", "sheet-set", "sheets written %s, expected asset-year sheets %s and summaries %s" % (sorted(written), sorted(sheet_of.values()), sorted(summary_of.values())))
    final = reportlib.final_sheets()
    S.expect(sorted(final) == sorted(set(sheet_of.values()) | set(summary_of.values()) | {tr("Legend")}) or sorted(n for n in final if n != "Legend") == sorted(set(sheet_of.values()) | set(summary_of.values())), "C20", "sheet-set", "document holds sheets %s" % (final,))
    closing = {}
    opening = {}
    for (asset, y), name in sheet_of.items():
        h, ys = hists[asset]
        rows = rec.rows(name)
        S.expect(rows.get(1, {}).get(7) == asset, "C20", "asset-label", "sheet %s is labelled %r" % (name, rows.get(1, {}).get(7)))
        mine = sorted((i for i in range(len(h.slots)) if ys[i] == y), key=lambda i: h.t[i])  # instants are concrete here
        data = [r for r in sorted(rows) if r >= 21 and 3 in rows[r] and 0 in rows[r] and not (isinstance(rows[r].get(0), str))]
        # a transfer without fee is a transaction of its year (the year gets its sheet and summary line) but has nothing to list
        mine = [i for i in mine if not (h.slots[i]["table"] == "INTRA" and isinstance(h.f[i], int) and h.f[i] == 0)]
        S.expect(len(data) == len(mine), "C20", "row-count", "sheet %s lists %d transactions, the year has %d" % (name, len(data), len(mine)))
        for r, i in zip(data, mine):
            c = rows[r]
            s = h.slots[i]
            tx = h.txs[i]
            what = "%s row %d (slot %d %s)" % (name, r + 1, i, s["type"])
            S.expect((c.get(0), c.get(1)) == (tx.timestamp.month, tx.timestamp.day), "C20", "month-day", what)
            if s["table"] == "IN":
                S.expect(c.get(3) == s["type"] and c.get(2) == s["ex"], "C20", "type-cell", what)
                S.expect(S.eq(S.ex(c.get(4)), S.ex_int(h.a[i], 11)) and S.eq(S.ex(c.get(5)), S.ex_int(h.a[i] * h.p[i], 15)), "C20", "purchase", what)
                if s["type"] in ("INTEREST",):
                    S.expect(S.eq(S.ex(c.get(7)), S.ex_int(h.a[i] * h.p[i], 15)), "C20", "income", what)
                else:
                    S.expect(6 not in c and 7 not in c, "C20", "purchase-with-sale", what)
            elif s["table"] == "OUT":
                S.expect(c.get(3) == s["type"] and c.get(2) == s["ex"], "C20", "type-cell", what)
                if s["type"] == "DONATE":
                    S.expect(S.eq(S.ex(c.get(6)), S.ex_int(h.need(i), 11)), "C20", "sale", what)
                    _donation(S, c.get(7), S.ex_int(h.a[i] * h.p[i], 15), what)
                else:
                    S.expect(S.eq(S.ex(c.get(6)), S.ex_int(h.need(i), 11)) and S.eq(S.ex(c.get(7)), S.ex_int(h.a[i] * h.p[i], 15)), "C20", "sale", what)
                S.expect(4 not in c and 5 not in c, "C20", "sale-with-purchase", what)
            else:
                S.expect(c.get(3) == "FEE" and c.get(2) == tr("Transfer"), "C20", "type-cell", what)
                S.expect(S.eq(S.ex(c.get(6)), S.ex_int(h.f[i], 11)) and S.eq(S.ex(c.get(7)), S.ex_int(h.f[i] * h.p[i], 15)), "C20", "transfer-fee", what)
        # closing-balance cells: the row that holds "=E13+E.." in column F carries the opening cells in column E and the closing cells in column I
        rr = [r for r in rows if isinstance(rows[r].get(5), str) and rows[r][5].startswith("=E13+E")]
        S.expect(len(rr) == 1, "C20", "layout", "sheet %s: %d balance rows" % (name, len(rr)))
        r0 = rr[0]
        closing[(asset, y)] = (r0, rows[r0].get(8), rows.get(r0 + 1, {}).get(8))
        opening[(asset, y)] = (rows[r0].get(4), rows.get(r0 + 1, {}).get(4))
    ref = re.compile(r"^='(?P<sheet>[^']*)'\.I(?P<row>\d+)$")
    for (asset, y), (oc, oy) in opening.items():
        name = sheet_of[(asset, y)]
        prev = [yy for (a, yy) in sheet_of if a == asset and yy < y]
        if not prev:
            S.expect(oc == 0 and oy == 0, "C20", "opening-not-zero", "sheet %s is the asset's first year but its opening balance is %r / %r" % (name, oc, oy))
            continue
        py = max(prev)
        pname = sheet_of[(asset, py)]
        pr0 = closing[(asset, py)][0]
        for cell, delta, what in ((oc, 0, "crypto"), (oy, 1, "yen")):
            m = ref.match(cell) if isinstance(cell, str) else None
            S.expect(m is not None, "C20", "opening-not-linked", "sheet %s: opening %s balance is %r although %s exists" % (name, what, cell, pname))
            S.expect(m.group("sheet") == pname, "C20", "opening-wrong-sheet", "sheet %s: opening %s balance refers to sheet %r, the most recent earlier year sheet is %r" % (name, what, m.group("sheet"), pname))
            S.expect(int(m.group("row")) == pr0 + 1 + delta, "C20", "opening-wrong-cell", "sheet %s: opening %s balance refers to %s row %s, its closing balance is on row %d" % (name, what, pname, m.group("row"), pr0 + 1 + delta))
    # summaries: one line per asset of that year, pointing at that asset-year sheet
    sref = re.compile(r"^='(?P<sheet>[^']*)'\.[A-Z]+\d+$")
    for y, sname in summary_of.items():
        rows = rec.rows(sname)
        lines = [r for r in sorted(rows) if rows[r].get(0) in hists and isinstance(rows[r].get(3), str)]
        want = sorted(a for (a, yy) in sheet_of if yy == y)
        S.expect(sorted(rows[r][0] for r in lines) == want, "C20", "summary-lines", "summary %s lists %s, assets with transactions that year: %s" % (sname, [rows[r][0] for r in lines], want))
        for r in lines:
            a = rows[r][0]
            for col in (3, 4, 5, 6):
                m = sref.match(rows[r].get(col) or "")
                S.expect(m is not None and m.group("sheet") == sheet_of[(a, y)], "C20", "summary-link", "summary %s line %s column %d refers to %r" % (sname, a, col, rows[r].get(col)))
    S.observe("sheets", sorted(sheet_of.values()))
    S.observe("years", years1)
    S.note("asset-year-sheets", len(sheet_of))
    return "ok"
