"""Running the real report generators (real ezodf, real templates) with a recorder at AbstractODSGenerator._fill_cell.

The observation point of C13-C16, C19, C20 is the _fill_cell call: (sheet name, row, column, value).  Under the explorer
symbolic values are recorded as they are and a concrete placeholder is handed on to ezodf; on the real code (replay) the
value is recorded and the original method runs unchanged, so float() conversion and the .ods bytes are exercised there.
"""
import importlib
import os
import re
import shutil
from datetime import date, datetime, timezone

REC = []
STY = []
_INSTALLED = {}


def _placeholder(value):
    from rp2.rp2_decimal import RP2Decimal  # pylint: disable=import-outside-toplevel

    t = type(value).__name__
    if isinstance(value, RP2Decimal) or t in ("Decimal", "_QuotQ"):
        if getattr(value, "is_concrete", True):
            return value
        return 0.0
    if t == "SymDatetime":
        return datetime(2000, 1, 1, tzinfo=timezone.utc)
    if t == "SymDate":
        return date(2000, 1, 1)
    if t in ("SymInt",):
        return 0
    if t in ("SymStr", "SymTsStr", "SymNumStr"):
        return str.__getitem__(value, slice(None))
    return value


def install_recorder(sym):
    from rp2.plugin.report.abstract_ods_generator import AbstractODSGenerator  # pylint: disable=import-outside-toplevel

    if _INSTALLED.get("done"):
        return
    _INSTALLED["done"] = True
    orig = AbstractODSGenerator._fill_cell.__func__  # pylint: disable=protected-access

    def _fill(cls, sheet, row_index, column_index, value, *a, **kw):
        REC.append((sheet, row_index, column_index, value))
        STY.append((kw.get("visual_style", a[0] if len(a) > 0 else "transparent"), kw.get("data_style", a[1] if len(a) > 1 else "default")))
        if sym:
            value = _placeholder(value)
        return orig(cls, sheet, row_index, column_index, value, *a, **kw)

    AbstractODSGenerator._fill_cell = classmethod(_fill)  # pylint: disable=protected-access
    orig_init = AbstractODSGenerator._initialize_output_file.__func__  # pylint: disable=protected-access

    def _init(cls, *a, **kw):
        doc = orig_init(cls, *a, **kw)
        _INSTALLED["doc"] = doc
        if sym:
            # the .ods bytes are outside the symbolic claim (cells hold placeholders there): do not zip and write them on
            # every path; the concrete replay saves the real file
            doc.save = lambda: None
        return doc

    AbstractODSGenerator._initialize_output_file = classmethod(_init)  # pylint: disable=protected-access


def final_sheets():
    """sheet names of the document object of the last generate() call, as left at the end of the call"""
    doc = _INSTALLED.get("doc")
    return list(doc.sheets.names()) if doc is not None else []


class Record:
    """cells by final sheet name: {sheet: {(row, col): value}}; a cell written twice keeps every value in .multi"""

    def __init__(self, rec, sty=None):
        self.sheets = {}
        self.multi = {}
        self.styles = {}  # {sheet: {(row, col): (visual_style, data_style)}} as passed to _fill_cell
        for k, (sheet, r, c, v) in enumerate(rec):
            name = sheet.name
            d = self.sheets.setdefault(name, {})
            if (r, c) in d:
                self.multi.setdefault(name, []).append((r, c))
            d[(r, c)] = v
            if sty is not None and k < len(sty):
                self.styles.setdefault(name, {})[(r, c)] = sty[k]

    def rows(self, sheet):
        d = self.sheets.get(sheet, {})
        out = {}
        for (r, c), v in d.items():
            out.setdefault(r, {})[c] = v
        return out

    def find_rows(self, sheet, col, text):
        return sorted(r for (r, c), v in self.sheets.get(sheet, {}).items() if c == col and type(v) is str and v == text)  # pylint: disable=unidiomatic-typecheck


def _rebind_language():
    """rp2_main sets the language before it imports the report plugins, which bind `_` at import time; a long-lived worker
    runs jobs in several languages, so the binding of the already imported report modules is refreshed (a fresh process)"""
    import sys  # pylint: disable=import-outside-toplevel

    from rp2 import localization  # pylint: disable=import-outside-toplevel

    for name, m in list(sys.modules.items()):
        if name.startswith("rp2.plugin.report") and m is not None and "_" in vars(m):
            m._ = localization._  # pylint: disable=protected-access


def tr(text):
    from rp2 import localization  # pylint: disable=import-outside-toplevel

    return localization._(text)


LANG = {"us": "en", "generic": "en", "es": "es", "ie": "en_IE", "jp": "en"}


def outdir():
    d = os.path.abspath("out_%d" % os.getpid())
    os.makedirs(d, exist_ok=True)
    return d


def generate(S, generator, country, cds, method_names, from_date, to_date, lang="en", keep=False):
    """runs <generator>.Generator().generate(...) as rp2_main does; returns (Record, exception or None)"""
    from rp2.localization import set_generation_language  # pylint: disable=import-outside-toplevel

    set_generation_language(lang)
    install_recorder(S.mode == "sym")
    mod = importlib.import_module("rp2.plugin.report." + generator)
    _rebind_language()
    del REC[:]
    del STY[:]
    _INSTALLED.pop("doc", None)
    # ezodf keeps every wrapped table in a process-wide cache (it is written for one document per process): without this
    # a worker that generates thousands of reports keeps all of them alive
    import ezodf.wrapcache  # pylint: disable=import-outside-toplevel

    ezodf.wrapcache.clear()
    d = outdir()
    err = None
    try:
        mod.Generator().generate(country=country, years_2_accounting_method_names=method_names, asset_to_computed_data=cds, output_dir_path=d, output_file_prefix="v_", from_date=from_date, to_date=to_date, generation_language=lang)
    except Exception as e:  # pylint: disable=broad-except
        err = e
    rec = Record(list(REC), list(STY))
    del REC[:]
    del STY[:]
    if not keep:
        shutil.rmtree(d, ignore_errors=True)
    return rec, err


_LINK = re.compile(r'^=HYPERLINK\("#(?P<sheet>[^"]*)\.a(?P<r1>\d+):z(?P<r2>\d+)"; (?P<rest>.*)\)$', re.S)


def parse_link(value):
    """(sheet, row, inner) for a HYPERLINK formula, None for anything else.
    inner: list of parts (plain text and symbolic renderings) of the linked value, surrounding quotes removed"""
    if not isinstance(value, str):
        return None
    parts = getattr(value, "parts", None)
    if parts is None:
        if not value.startswith("=HYPERLINK("):
            return None
        parts = [value]
    if not parts or type(parts[0]) is not str or not parts[0].startswith("=HYPERLINK("):  # pylint: disable=unidiomatic-typecheck
        return None
    m = re.match(r'^=HYPERLINK\("#(?P<sheet>[^"]*)\.a(?P<r1>\d+):z(?P<r2>\d+)"; ', parts[0])
    if not m or m.group("r1") != m.group("r2"):
        raise ValueError("unparsable hyperlink %r" % (parts,))
    inner = [parts[0][m.end():]] + list(parts[1:])
    last = inner[-1]
    if type(last) is not str or not last.endswith(")"):  # pylint: disable=unidiomatic-typecheck
        raise ValueError("unparsable hyperlink %r" % (parts,))
    inner[-1] = last[:-1]
    if type(inner[0]) is str and inner[0].startswith('"') and inner[-1].endswith('"'):  # pylint: disable=unidiomatic-typecheck
        inner[0] = inner[0][1:]
        inner[-1] = inner[-1][:-1]
    inner = [x for x in inner if not (type(x) is str and x == "")]  # pylint: disable=unidiomatic-typecheck
    return m.group("sheet"), int(m.group("r1")), inner


def part_value(S, x):
    """one part of a structured string as ('num', exact) / ('ts', datetime) / ('str', text)"""
    if type(x) is str:  # pylint: disable=unidiomatic-typecheck
        return ("str", x)
    n = type(x).__name__
    if n == "_Formatted":
        return ("num", S.ex(x.value), x.spec)
    if n == "IntFmt":
        return ("num", x.v, x.spec)
    if n == "TsFmt":
        return ("ts", x.dt)
    if n == "DateFmt":
        return ("date", x.d)
    return ("other", x)


def inner_value(S, inner):
    """the linked value: ('num', exact) | ('ts', datetime-like) | ('str', text) | ('parts', [...])"""
    if len(inner) == 1:
        x = inner[0]
        if type(x) is str:  # pylint: disable=unidiomatic-typecheck
            try:
                from decimal import Decimal  # pylint: disable=import-outside-toplevel
                from fractions import Fraction  # pylint: disable=import-outside-toplevel

                return ("num", S.ex(Decimal(x)))
            except Exception:  # pylint: disable=broad-except
                return ("str", x)
        return part_value(S, x)[:2]
    if not inner:
        return ("str", "")
    return ("parts", inner)


_NOTE = re.compile(r"^(\d+)/(\d+): ([-0-9.]+) of ([-0-9.]+) (\S+)$")


def parse_note(S, inner):
    """'k/n: x of y ASSET' -> (k, n, x, y, asset) with x, y exact numbers (as rendered with 8 decimals on real code)"""
    from decimal import Decimal  # pylint: disable=import-outside-toplevel
    from fractions import Fraction  # pylint: disable=import-outside-toplevel

    if len(inner) == 1 and type(inner[0]) is str:  # pylint: disable=unidiomatic-typecheck
        m = _NOTE.match(inner[0])
        if not m:
            raise ValueError("unparsable note %r" % (inner,))
        return int(m.group(1)), int(m.group(2)), S.ex(Decimal(m.group(3))), S.ex(Decimal(m.group(4))), m.group(5), True
    if len(inner) == 5 and type(inner[0]) is str and type(inner[2]) is str and type(inner[4]) is str:  # pylint: disable=unidiomatic-typecheck
        m = re.match(r"^(\d+)/(\d+): $", inner[0])
        if not m or inner[2] != " of ":
            raise ValueError("unparsable note %r" % (inner,))
        return int(m.group(1)), int(m.group(2)), S.ex(inner[1].value), S.ex(inner[3].value), inner[4].strip(), False
    raise ValueError("unparsable note %r" % (inner,))
