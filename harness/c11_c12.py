"""C11 (parsed transactions equal the spreadsheet rows for any column layout) and C12 (malformed input is rejected).

Unit driven: rp2.ods_parser.parse_ods on a duck-typed document (sheets / rows / cells with .value), the real
Configuration built from a generated .ini, the real transaction constructors behind it.
Symbolic: numeric cells (arbitrary multiples of 1e-18 standing for "any real"), timestamp cells (instant + UTC offset),
faulty numeric values (C12), the row-kind of every sheet row in the structural part of C12 (realised lazily, so the
exploration follows the parser's own state machine).
Enumerated: column layouts, which optional cells are empty, table order, blank rows, discrete faults x field position.
"""
import hashlib
import os
from itertools import permutations

from symx.api import us_of

from .common import country_of

PROPS = ("C11", "C12")
BUDGET = {"quick": 900, "thorough": 1500}
CHUNK = 200

M, O = True, False
# field, kind, mandatory
FIELDS = {
    "in": [("timestamp", "ts", M), ("asset", "asset", M), ("exchange", "ex", M), ("holder", "ho", M), ("transaction_type", "type", M), ("spot_price", "num", M), ("crypto_in", "num", M), ("crypto_fee", "num", O), ("fiat_in_no_fee", "num", O), ("fiat_in_with_fee", "num", O), ("fiat_fee", "num", O), ("unique_id", "str", O), ("notes", "str", O)],
    "out": [("timestamp", "ts", M), ("asset", "asset", M), ("exchange", "ex", M), ("holder", "ho", M), ("transaction_type", "type", M), ("spot_price", "num", M), ("crypto_out_no_fee", "num", M), ("crypto_fee", "num", M), ("crypto_out_with_fee", "num", O), ("fiat_out_no_fee", "num", O), ("fiat_fee", "num", O), ("unique_id", "str", O), ("notes", "str", O)],
    "intra": [("timestamp", "ts", M), ("asset", "asset", M), ("from_exchange", "ex", M), ("from_holder", "ho", M), ("to_exchange", "ex", M), ("to_holder", "ho", M), ("spot_price", "num", O), ("crypto_sent", "num", M), ("crypto_received", "num", M), ("unique_id", "str", O), ("notes", "str", O)],
}
BASE = {
    "in": {"timestamp": 0, "asset": 6, "exchange": 1, "holder": 2, "transaction_type": 5, "spot_price": 8, "crypto_in": 7, "crypto_fee": 13, "fiat_in_no_fee": 9, "fiat_in_with_fee": 10, "fiat_fee": 11, "unique_id": 14, "notes": 12},
    "out": {"timestamp": 0, "asset": 6, "exchange": 1, "holder": 2, "transaction_type": 5, "spot_price": 8, "crypto_out_no_fee": 7, "crypto_fee": 9, "crypto_out_with_fee": 10, "fiat_out_no_fee": 11, "fiat_fee": 13, "unique_id": 14, "notes": 12},
    "intra": {"timestamp": 0, "asset": 6, "from_exchange": 1, "from_holder": 2, "to_exchange": 3, "to_holder": 4, "spot_price": 8, "crypto_sent": 7, "crypto_received": 10, "unique_id": 14, "notes": 12},
}
TABLES = ("in", "out", "intra")
KW = {"in": "IN", "out": "OUT", "intra": "INTRA"}
MAND = {t: [f for f, _, m in FIELDS[t] if m] for t in TABLES}
KINDS = {t: {f: k for f, k, _ in FIELDS[t]} for t in TABLES}

UNIT = 10**7  # 1e-11 in units of 1e-18 (cell grid)
AMT_MAX = 10**27  # 1e9
PRICE_MAX = 10**25  # 1e7


# ---------------------------------------------------------------------------------------------------------------
# layouts
def layout(name, table):
    """column assignment for `table` under the named layout transformation of the base layout"""
    base = dict(BASE[table])
    kind, _, arg = name.partition(":")
    if kind == "base":
        return base
    if kind == "rev":
        mx = max(base.values())
        lay = {f: mx - c for f, c in base.items()}
        # the first column has to hold a mandatory field
        at0 = [f for f, c in lay.items() if c == 0][0]
        if at0 not in MAND[table]:
            lay[at0], lay["timestamp"] = lay["timestamp"], 0
        return lay
    if kind == "first":
        if arg not in base:
            return None
        lay = dict(base)
        lay["timestamp"], lay[arg] = lay[arg], 0
        return lay
    if kind == "far":
        if arg not in base or base[arg] == 0:
            return None  # the first column has to keep a mandatory field
        lay = dict(base)
        lay[arg] = 23
        return lay
    if kind == "gaps":
        return {f: (2 * c + 1 if c else 0) for f, c in base.items()}
    if kind == "dropopt":
        return {f: c for f, c in base.items() if f in MAND[table]}
    if kind == "drop":
        if arg not in base or arg in MAND[table]:
            return None
        return {f: c for f, c in base.items() if f != arg}
    if kind == "rot":
        # rotate the non-zero columns by `arg`
        k = int(arg)
        cols = sorted(c for c in base.values() if c)
        m = {c: cols[(i + k) % len(cols)] for i, c in enumerate(cols)}
        return {f: (m[c] if c else 0) for f, c in base.items()}
    raise ValueError(name)


def layout_names(table, tier):
    names = ["base", "rev", "gaps", "dropopt", "rot:1", "rot:5"]
    for f, _, m in FIELDS[table]:
        if m and f != "timestamp":
            names.append("first:" + f)
        names.append("far:" + f)
        if not m:
            names.append("drop:" + f)
    if tier == "thorough":
        names += ["rot:%d" % k for k in (2, 3, 4, 7, 9, 11)]
    return names


def write_ini(layouts):
    """layouts: {table: {field: col}} -> path of a generated .ini in the current (scratch) directory"""
    lines = ["[general]", "assets = B1, B2", "exchanges = X1, X2", "holders = H1, H2", ""]
    for t in TABLES:
        lines.append("[%s_header]" % t)
        for f, c in layouts[t].items():
            lines.append("%s = %d" % (f, c))
        lines.append("")
    text = "\n".join(lines)
    path = os.path.abspath("c11_%s.ini" % hashlib.sha1(text.encode()).hexdigest()[:12])
    if not os.path.exists(path):
        with open(path + ".tmp%d" % os.getpid(), "w", encoding="utf-8") as f:
            f.write(text)
        os.replace(path + ".tmp%d" % os.getpid(), path)
    return path


# ---------------------------------------------------------------------------------------------------------------
# duck-typed document
class Cell:
    __slots__ = ("value",)

    def __init__(self, value):
        self.value = value


class Sheet:
    def __init__(self, rowgen):
        self._rowgen = rowgen

    def rows(self):
        for r in self._rowgen():
            yield [Cell(v) for v in r]


class Sheets:
    def __init__(self, d):
        self._d = d

    def names(self):
        return list(self._d)

    def __getitem__(self, k):
        return self._d[k]


class Doc:
    docname = "symbolic.ods"

    def __init__(self, sheets):
        self.sheets = Sheets(sheets)


# ---------------------------------------------------------------------------------------------------------------
# row patterns: which optional cells are filled
IN_PATTERNS = [{"fee": fee, "nofee": a, "withfee": b, "txt": t} for fee in ("none", "crypto", "fiat", "zero") for a in (0, 1) for b in (0, 1) for t in (0, 1)]
OUT_PATTERNS = [{"typ": typ, "fee": fee, "cwf": a, "fonf": b, "ff": c, "txt": t} for typ in ("SELL", "FEE") for fee in ("zero", "pos") for a in (0, 1) for b in (0, 1) for c in (0, 1) for t in (0, 1) if not (typ == "FEE" and fee == "zero")]
INTRA_PATTERNS = [{"fee": fee, "price": p, "txt": t} for fee in ("zero", "pos") for p in (0, 1) for t in (0, 1) if not (fee == "pos" and p == 0)]
PATTERNS = {"in": IN_PATTERNS, "out": OUT_PATTERNS, "intra": INTRA_PATTERNS}
FEW = {
    "in": [{"fee": "none", "nofee": 0, "withfee": 0, "txt": 0}, {"fee": "crypto", "nofee": 1, "withfee": 1, "txt": 1}, {"fee": "fiat", "nofee": 1, "withfee": 0, "txt": 1}],
    "out": [{"typ": "SELL", "fee": "pos", "cwf": 0, "fonf": 0, "ff": 0, "txt": 0}, {"typ": "SELL", "fee": "pos", "cwf": 1, "fonf": 1, "ff": 1, "txt": 1}, {"typ": "FEE", "fee": "pos", "cwf": 0, "fonf": 0, "ff": 1, "txt": 1}],
    "intra": [{"fee": "pos", "price": 1, "txt": 1}, {"fee": "zero", "price": 0, "txt": 0}],
}


class RowVars:
    """the symbolic content of one data row of `table` (valid by construction unless a fault is injected later)"""

    def __init__(self, S, table, pat, tag, in_type="BUY"):
        self.table, self.pat, self.tag = table, pat, tag
        self.us = S.int("t" + tag, us_of(2020), us_of(2021) - 1)
        self.off = S.int("o" + tag, -720, 840)
        v = self.v = {}
        self.txt = {"asset": "B1", "unique_id": "uid-" + tag if pat.get("txt") else None, "notes": "note " + tag if pat.get("txt") else None}
        if table == "in":
            self.txt.update(exchange="X1", holder="H2", transaction_type=in_type)
            v["spot_price"] = S.int("p" + tag, UNIT, PRICE_MAX)
            v["crypto_in"] = S.int("a" + tag, UNIT, AMT_MAX)
            if pat["fee"] == "crypto":
                v["crypto_fee"] = S.int("cf" + tag, UNIT, AMT_MAX)
            elif pat["fee"] == "fiat":
                v["fiat_fee"] = S.int("ff" + tag, UNIT, AMT_MAX)
            elif pat["fee"] == "zero":
                v["fiat_fee"] = 0
            if pat["nofee"]:
                v["fiat_in_no_fee"] = S.int("nf" + tag, UNIT, AMT_MAX)
            if pat["withfee"]:
                v["fiat_in_with_fee"] = S.int("wf" + tag, UNIT, AMT_MAX)
        elif table == "out":
            self.txt.update(exchange="X2", holder="H1", transaction_type=pat["typ"])
            v["spot_price"] = S.int("p" + tag, UNIT, PRICE_MAX)
            v["crypto_out_no_fee"] = 0 if pat["typ"] == "FEE" else S.int("a" + tag, UNIT, AMT_MAX)
            v["crypto_fee"] = S.int("cf" + tag, UNIT, AMT_MAX) if pat["fee"] == "pos" else 0
            if pat["cwf"]:
                v["crypto_out_with_fee"] = S.int("cw" + tag, UNIT, AMT_MAX)
            if pat["fonf"]:
                v["fiat_out_no_fee"] = S.int("fo" + tag, UNIT, AMT_MAX)
            if pat["ff"]:
                v["fiat_fee"] = S.int("ff" + tag, 0, AMT_MAX)
        else:
            self.txt.update(from_exchange="X1", from_holder="H1", to_exchange="X2", to_holder="H2")
            v["crypto_received"] = S.int("a" + tag, UNIT, AMT_MAX)
            if pat["fee"] == "pos":
                # >= 2e-11: a fee of 1e-11 can vanish when both cells are rounded to 11 decimals (1.5 -> 2, 2.5 -> 2)
                fee = S.int("cf" + tag, 2 * UNIT, AMT_MAX)
                v["crypto_sent"] = v["crypto_received"] + fee
            else:
                v["crypto_sent"] = v["crypto_received"]
            if pat["price"]:
                v["spot_price"] = S.int("p" + tag, UNIT, PRICE_MAX)
        self.cells = {}

    def cell(self, S, field):
        """content of the cell holding `field` (None = empty)"""
        if field in self.cells:
            return self.cells[field]
        k = KINDS[self.table][field]
        if k == "ts":
            c = S.tscell(self.us, self.off)
        elif k == "num":
            c = S.cell(self.v[field]) if field in self.v else None
        else:
            c = self.txt.get(field)
        self.cells[field] = c
        return c

    def values(self, S, lay, width):
        row = [None] * width
        # unmapped columns carry junk that has to be ignored
        for c in range(1, width):
            row[c] = ("junk%d" % c) if c % 2 else float(c)  # unmapped columns: text and plain floats
        for f, _, _ in FIELDS[self.table]:
            if f in lay:
                row[lay[f]] = self.cell(S, f)
        return row


def header_row(table, lay, width):
    row = [None] * width
    for f, c in lay.items():
        row[c] = f
    if row[0] is None:
        row[0] = "header"
    return row


def kw_row(word, width):
    return [word] + [None] * (width - 1)


# ---------------------------------------------------------------------------------------------------------------
def jobs(tier):
    js = []
    # C11 a: every layout x table, few patterns; base layout x every pattern
    for t in TABLES:
        for name in layout_names(t, tier):
            if layout(name, t) is None:
                continue
            for pi, _ in enumerate(FEW[t]):
                js.append({"for": "C11", "mode": "row", "table": t, "layout": name, "pat": ("few", pi), "order": "in,out,intra", "blanks": 0})
            if tier == "thorough" and name != "base":
                # every combination of empty / filled optional cells under every layout
                for pi, _ in enumerate(PATTERNS[t]):
                    js.append({"for": "C11", "mode": "row", "table": t, "layout": name, "pat": ("all", pi), "order": "in,out,intra", "blanks": 0})
        for pi, _ in enumerate(PATTERNS[t]):
            js.append({"for": "C11", "mode": "row", "table": t, "layout": "base", "pat": ("all", pi), "order": "in,out,intra", "blanks": 0})
    # C11 b: table orders x blank rows, one/two rows per table, all three tables filled
    for order in permutations(TABLES):
        for blanks in (0, 2):
            js.append({"for": "C11", "mode": "sheet", "layout": "base" if blanks == 0 else "gaps", "order": ",".join(order), "blanks": blanks, "rows": 1})
    js.append({"for": "C11", "mode": "sheet", "layout": "base", "order": "in,out,intra", "blanks": 1, "rows": 2})
    js.append({"for": "C11", "mode": "sheet", "layout": "rot:5", "order": "intra,in,out", "blanks": 1, "rows": 2})
    js.append({"for": "C11", "mode": "sheet", "layout": "base", "order": "in,out,intra", "blanks": 150, "rows": 1})
    js.append({"for": "C11", "mode": "sheet", "layout": "base", "order": "out,intra,in", "blanks": 1000, "rows": 1})
    # partial fills of one order: two acquisitions paying a crypto fee, sharing their unique id (or having none) and free to share
    # their instant - each has its own artificial fee transaction
    for fills in ("same-id", "no-id"):
        js.append({"for": "C11", "mode": "sheet", "layout": "base", "order": "in,out,intra", "blanks": 0, "rows": 1, "fills": fills})
    # an acquisition paying a crypto fee is split whatever its type (taxable income types too)
    for in_type in ("STAKING", "GIFT") if tier == "quick" else ():
        js.append({"for": "C11", "mode": "row", "table": "in", "layout": "base", "pat": ("few", 1), "order": "in,out,intra", "blanks": 0, "in_type": in_type})
    if tier == "thorough":
        for order in permutations(TABLES):
            js.append({"for": "C11", "mode": "sheet", "layout": "rot:1", "order": ",".join(order), "blanks": 1, "rows": 2})
        js.append({"for": "C11", "mode": "sheet", "layout": "base", "order": "in,out,intra", "blanks": 0, "rows": 3})
        js.append({"for": "C11", "mode": "sheet", "layout": "rev", "order": "out,intra,in", "blanks": 1, "rows": 2})
        for in_type in ("GIFT", "DONATE", "AIRDROP", "HARDFORK", "INCOME", "INTEREST", "MINING", "STAKING", "WAGES"):
            js.append({"for": "C11", "mode": "row", "table": "in", "layout": "base", "pat": ("few", 1), "order": "in,out,intra", "blanks": 0, "in_type": in_type})
    # C12 a: numeric faults (the faulty value is symbolic)
    for t in TABLES:
        for f, k, m in FIELDS[t]:
            if k != "num":
                continue
            for fault in ("neg", "zero"):
                js.append({"for": "C12", "mode": "numfault", "table": t, "field": f, "fault": fault, "layout": "base"})
                if tier == "thorough":
                    js.append({"for": "C12", "mode": "numfault", "table": t, "field": f, "fault": fault, "layout": "rev"})
    js.append({"for": "C12", "mode": "numfault", "table": "intra", "field": "crypto_received", "fault": "gt_sent", "layout": "base"})
    js.append({"for": "C12", "mode": "numfault", "table": "in", "field": "crypto_fee", "fault": "both_fees", "layout": "base"})
    js.append({"for": "C12", "mode": "numfault", "table": "intra", "field": "spot_price", "fault": "empty_price_with_fee", "layout": "base"})
    # C12 b: discrete faults at every field position
    for t in TABLES:
        for f, k, m in FIELDS[t]:
            faults = []
            if k == "ts":
                faults = ["naive_ts", "bad_ts", "empty", "number"]
            elif k == "asset":
                faults = ["unknown", "other_asset", "empty", "number"]
            elif k in ("ex", "ho"):
                faults = ["unknown", "empty", "number", "case"]
            elif k == "type":
                faults = ["unknown", "empty"] + ["type:" + x for x in ("AIRDROP", "BUY", "DONATE", "FEE", "GIFT", "HARDFORK", "INCOME", "INTEREST", "LOST", "MINING", "MOVE", "SELL", "STAKING", "WAGES")]
            elif k == "num":
                faults = ["text", "empty"] if m else ["text"]
            for fault in faults:
                js.append({"for": "C12", "mode": "cellfault", "table": t, "field": f, "fault": fault, "layout": "base"})
    js.append({"for": "C12", "mode": "cellfault", "table": "in", "field": "timestamp", "fault": "short_row", "layout": "base"})
    # C12 c: table structure, row kinds realised lazily
    for n in (5, 6, 7) if tier == "quick" else (5, 6, 7, 8):
        js.append({"for": "C12", "mode": "structure", "n": n, "layout": "base"})
    # all three tables present and closed (too long to be reached by the free sequences), then 2 (thorough 3) free rows
    full = ["IN", "HEADER", "DATA", "END", "OUT", "HEADER", "END", "INTRA", "HEADER", "END"]
    for prefix in (full, full[4:7] + full[:4] + full[7:], full[:4] + full[7:] + ["EMPTY"]):
        js.append({"for": "C12", "mode": "structure", "n": len(prefix) + (2 if tier == "quick" else 3), "layout": "base", "prefix": prefix})
    return js


def select(prop, spec):
    return spec["for"] == prop


def describe(spec):
    m = spec["mode"]
    if m == "row":
        return "C11 row %s layout=%s pat=%s%d%s" % (spec["table"], spec["layout"], spec["pat"][0], spec["pat"][1], " type=" + spec["in_type"] if spec.get("in_type") else "")
    if m == "sheet":
        return "C11 sheet order=%s blanks=%d rows=%d layout=%s%s" % (spec["order"], spec["blanks"], spec["rows"], spec["layout"], " fills=" + spec["fills"] if spec.get("fills") else "")
    if m == "structure":
        return "C12 structure n=%d%s" % (spec["n"], " after [%s]" % ",".join(spec["prefix"]) if spec.get("prefix") else "")
    return "C12 %s %s.%s %s layout=%s" % (m, spec["table"], spec["field"], spec["fault"], spec["layout"])


def weight(spec):
    return {"structure": 1000, "sheet": 100}.get(spec["mode"], 1) + spec.get("n", 0) + spec.get("rows", 0)


def bounds(tier):
    return {
        "layouts": "per table: base, reversed, interleaved unmapped columns, every mandatory field in column 0, every field in a far column (23), every optional field / all optional fields absent from the config, rotations of the non-zero columns",
        "optional_cells": "every combination of empty/filled optional cells on the base layout, 2-3 representative combinations on the other layouts",
        "tables": "all 6 orders of IN/OUT/INTRA, 0-2 (and 150, 1000) blank rows between tables, 1-2 data rows per table",
        "numeric_cells": "any multiple of 1e-18 in [1e-11, 1e9] (amounts) / [1e-11, 1e7] (prices), standing for an arbitrary real",
        "timestamps": "any instant of 2020 at microsecond resolution with any whole-minute UTC offset in [-12:00, +14:00]",
        "numeric_faults": "faulty value v: any v <= -1e-11 ('neg'), v = 0 ('zero'), received >= sent + 2e-11, both fees >= 1e-11",
        "structure": "every sequence of %s sheet rows over {IN, OUT, INTRA, TABLE END, empty, junk, header, data row}, explored along the parser's own accept/reject decisions" % ("5-6" if tier == "quick" else "5-8"),
        "outside": ["ezodf cell typing and the .ods bytes", "ConfigParser / malformed .ini", "command line conflicts, exit status, 'no report written' (process-level facts without symbolic input)", "timestamps' textual form (dateutil) beyond the concrete faulty strings", "arbitrary column permutations beyond the generating set"],
    }


def assumptions():
    return [
        "a symbolic timestamp cell stands for any string that dateutil parses to that tz-aware instant; such a string is never equal to a table keyword",
        "a numeric cell is an arbitrary real on a 1e-18 grid; '%.11f' is correctly rounded (half-even on exact ties); the concrete replay feeds the chosen real as an exact decimal.Decimal cell (a float cell is an exact dyadic rational and is formatted by the same rule)",
        "values with 0 < |v| < 1e-11 are not used (they are zero at the parser's 11 decimals)",
        "C12: a fault is injected into a data row (sheet position >= 2 of its table): position 1 is the header by definition of the format",
    ]


# ---------------------------------------------------------------------------------------------------------------
def _cfg(path, country="us"):
    from rp2.configuration import Configuration  # pylint: disable=import-outside-toplevel

    return Configuration(path, country_of(country), allow_negative_balances=True)


def _width(layouts, extra=2):
    return max(max(lay.values()) for lay in layouts.values()) + 1 + extra


def _near(S, prop, what, parsed, cell):
    d = S.ex(parsed) - S.cell_exact(cell)
    S.expect(not d * 2 > S.ex_int(1, 11) and not d * 2 < S.ex_int(-1, 11), prop, "precision", "%s: parsed value differs from the cell by more than 0.5e-11" % what)


def _same_ts(S, prop, tx, rv):
    want = S.dt(rv.us, rv.off)
    S.expect(tx.timestamp == want, prop, "timestamp", "timestamp of row %s" % rv.tag)
    S.expect(tx.timestamp.utcoffset() == want.utcoffset(), prop, "utc-offset", "utc offset of row %s" % rv.tag)


def check_tx(S, prop, tx, rv, lay, rowno, inp):
    """oracle: transaction `tx` equals the row `rv` read through layout `lay` (fields not in the layout are defaulted)"""
    from rp2.rp2_decimal import ZERO  # pylint: disable=import-outside-toplevel

    t = rv.table
    has = lambda f: f in lay and rv.cell(S, f) is not None  # noqa: E731
    S.expect(tx.row == rowno, prop, "row-number", "transaction of sheet row %d has row %s" % (rowno, tx.row))
    _same_ts(S, prop, tx, rv)
    S.expect(tx.asset == "B1", prop, "asset")
    S.expect(tx.unique_id == (rv.txt["unique_id"] if has("unique_id") else ""), prop, "unique_id", "unique_id read as %r" % (tx.unique_id,))
    if t == "in" and has("crypto_fee"):
        S.expect(bool(tx.notes), prop, "notes", "the split in-transaction lost its explanatory note")
    else:
        S.expect(tx.notes == (rv.txt["notes"] if has("notes") else ""), prop, "notes", "notes read as %r" % (tx.notes,))
    if t == "in":
        S.expect((tx.exchange, tx.holder, tx.transaction_type.name) == (rv.txt["exchange"], rv.txt["holder"], rv.txt["transaction_type"]), prop, "text-field", "exchange/holder/type read as %s" % ((tx.exchange, tx.holder, tx.transaction_type.name),))
        _near(S, prop, "spot_price", tx.spot_price, rv.cell(S, "spot_price"))
        _near(S, prop, "crypto_in", tx.crypto_in, rv.cell(S, "crypto_in"))
        price, cin = S.ex(tx.spot_price), S.ex(tx.crypto_in)
        S.expect(tx.crypto_fee == ZERO, prop, "in-crypto-fee", "an in-transaction kept a crypto fee")
        arts = [o for o in inp.unfiltered_out_transaction_set if o.row < 0 and o.unique_id == tx.unique_id and o.timestamp == tx.timestamp]
        if has("crypto_fee"):
            # rows sharing instant and id (partial fills) each have their own artificial transaction: every one is claimed by
            # one row only (the total number of artificial transactions is checked by the caller)
            claimed = inp.__dict__.setdefault("_vf_claimed", set())
            free = [o for o in arts if o.row not in claimed]
            S.expect(len(free) >= 1, prop, "artificial-fee", "no artificial fee-only out-transaction (of its own) for the crypto fee of row %d" % rowno)
            d = [S.ex(o.crypto_fee) - S.cell_exact(rv.cell(S, "crypto_fee")) for o in free]
            best = [o for o, x in zip(free, d) if not x * 2 > S.ex_int(1, 11) and not x * 2 < S.ex_int(-1, 11)]
            art = (best or free)[0]
            claimed.add(art.row)
            S.expect((art.exchange, art.holder, art.transaction_type.name, art.asset) == (tx.exchange, tx.holder, "FEE", "B1"), prop, "artificial-fee-fields")
            _near(S, prop, "crypto_fee", art.crypto_fee, rv.cell(S, "crypto_fee"))
            S.expect(art.crypto_out_no_fee == ZERO, prop, "artificial-fee-amount")
            S.expect(S.eq(S.ex(art.spot_price), price), prop, "artificial-fee-price")
            S.expect(art.timestamp.utcoffset() == tx.timestamp.utcoffset(), prop, "artificial-fee-offset")
            S.expect(S.eq(S.ex(tx.fiat_fee), S.ex(art.crypto_fee) * price), prop, "fiat-fee-of-crypto-fee", "fiat fee is not crypto fee x spot price")
        else:
            S.expect(not arts, prop, "artificial-fee", "artificial fee transaction without a crypto fee")
            if has("fiat_fee"):
                _near(S, prop, "fiat_fee", tx.fiat_fee, rv.cell(S, "fiat_fee"))
            else:
                S.expect(tx.fiat_fee == ZERO, prop, "default-fiat-fee")
        if has("fiat_in_no_fee"):
            _near(S, prop, "fiat_in_no_fee", tx.fiat_in_no_fee, rv.cell(S, "fiat_in_no_fee"))
        else:
            S.expect(S.eq(S.ex(tx.fiat_in_no_fee), cin * price), prop, "default-fiat-in-no-fee")
        if has("fiat_in_with_fee"):
            _near(S, prop, "fiat_in_with_fee", tx.fiat_in_with_fee, rv.cell(S, "fiat_in_with_fee"))
        else:
            S.expect(S.eq(S.ex(tx.fiat_in_with_fee), S.ex(tx.fiat_in_no_fee) + S.ex(tx.fiat_fee)), prop, "default-fiat-in-with-fee")
    elif t == "out":
        S.expect((tx.exchange, tx.holder, tx.transaction_type.name) == (rv.txt["exchange"], rv.txt["holder"], rv.txt["transaction_type"]), prop, "text-field", "exchange/holder/type read as %s" % ((tx.exchange, tx.holder, tx.transaction_type.name),))
        _near(S, prop, "spot_price", tx.spot_price, rv.cell(S, "spot_price"))
        _near(S, prop, "crypto_out_no_fee", tx.crypto_out_no_fee, rv.cell(S, "crypto_out_no_fee"))
        _near(S, prop, "crypto_fee", tx.crypto_fee, rv.cell(S, "crypto_fee"))
        price, out, fee = S.ex(tx.spot_price), S.ex(tx.crypto_out_no_fee), S.ex(tx.crypto_fee)
        if has("crypto_out_with_fee"):
            _near(S, prop, "crypto_out_with_fee", tx.crypto_out_with_fee, rv.cell(S, "crypto_out_with_fee"))
        else:
            S.expect(S.eq(S.ex(tx.crypto_out_with_fee), out + fee), prop, "default-crypto-out-with-fee")
        if has("fiat_out_no_fee"):
            _near(S, prop, "fiat_out_no_fee", tx.fiat_out_no_fee, rv.cell(S, "fiat_out_no_fee"))
        else:
            S.expect(S.eq(S.ex(tx.fiat_out_no_fee), out * price), prop, "default-fiat-out-no-fee")
        if has("fiat_fee"):
            _near(S, prop, "fiat_fee", tx.fiat_fee, rv.cell(S, "fiat_fee"))
        else:
            S.expect(S.eq(S.ex(tx.fiat_fee), fee * price), prop, "default-fiat-fee")
    else:
        got = (tx.from_exchange, tx.from_holder, tx.to_exchange, tx.to_holder, tx.transaction_type.name)
        S.expect(got == (rv.txt["from_exchange"], rv.txt["from_holder"], rv.txt["to_exchange"], rv.txt["to_holder"], "MOVE"), prop, "text-field", "accounts read as %s" % (got,))
        _near(S, prop, "crypto_sent", tx.crypto_sent, rv.cell(S, "crypto_sent"))
        _near(S, prop, "crypto_received", tx.crypto_received, rv.cell(S, "crypto_received"))
        if has("spot_price"):
            _near(S, prop, "spot_price", tx.spot_price, rv.cell(S, "spot_price"))
        else:
            S.expect(tx.spot_price == ZERO, prop, "default-spot-price")
        S.expect(S.eq(S.ex(tx.crypto_fee), S.ex(tx.crypto_sent) - S.ex(tx.crypto_received)), prop, "transfer-fee")


def _sets(inp):
    return {"in": list(inp.unfiltered_in_transaction_set), "out": list(inp.unfiltered_out_transaction_set), "intra": list(inp.unfiltered_intra_transaction_set)}


def _pattern(spec, table):
    src, pi = spec["pat"]
    return (FEW if src == "few" else PATTERNS)[table][pi]


def run(S, spec):
    S.set_years([2020])
    mode = spec["mode"]
    if mode in ("row", "sheet"):
        return run_c11(S, spec)
    if mode == "structure":
        return run_structure(S, spec)
    return run_fault(S, spec)


def _build_sheet(S, layouts, order, blanks, rowsets, width):
    """rowsets: {table: [RowVars]} -> (rows, {(table, idx): sheet row number})"""
    rows, where = [], {}
    for _ in range(blanks):
        rows.append([None] * width)
    for t in order:
        if t not in rowsets:
            continue
        rows.append(kw_row(KW[t], width))
        rows.append(header_row(t, layouts[t], width))
        for i, rv in enumerate(rowsets[t]):
            rows.append(rv.values(S, layouts[t], width))
            where[(t, i)] = len(rows)
        rows.append(kw_row("TABLE END", width))
        for _ in range(blanks):
            rows.append([None] * width)
    return rows, where


def run_c11(S, spec):
    from rp2.ods_parser import parse_ods  # pylint: disable=import-outside-toplevel

    order = spec["order"].split(",")
    if spec["mode"] == "row":
        t = spec["table"]
        layouts = {x: layout("base", x) for x in TABLES}
        layouts[t] = layout(spec["layout"], t)
        pat = _pattern(spec, t)
        if t == "intra" and "spot_price" not in layouts[t]:
            pat = dict(pat, fee="zero", price=0)  # without a spot price column only fee-less transfers are valid
        rowsets = {t: [RowVars(S, t, pat, "s", in_type=spec.get("in_type", "BUY"))]}
        if t != "in":
            rowsets["in"] = [RowVars(S, "in", FEW["in"][0], "c")]
    else:
        layouts = {x: layout(spec["layout"], x) for x in TABLES}
        rowsets = {}
        for x in TABLES:
            rowsets[x] = [RowVars(S, x, FEW[x][(i + 1) % len(FEW[x])], "%s%d" % (x[:2], i)) for i in range(spec["rows"])]
        if spec.get("fills"):
            rowsets["in"] = [RowVars(S, "in", {"fee": "crypto", "nofee": 0, "withfee": 0, "txt": 1}, "f%d" % i) for i in range(2)]
            for rv in rowsets["in"]:
                rv.txt["unique_id"] = "order-7" if spec["fills"] == "same-id" else None
    width = _width(layouts)
    cfg = _cfg(write_ini(layouts))
    rows, where = _build_sheet(S, layouts, order, spec["blanks"], rowsets, width)
    other = [kw_row("IN", width), header_row("in", layouts["in"], width), kw_row("TABLE END", width)]
    doc = Doc({"B1": Sheet(lambda: rows), "B2": Sheet(lambda: other)})
    inp = parse_ods(cfg, "B1", doc)
    S.expect(inp.asset == "B1", "C11", "asset")
    sets = _sets(inp)
    n_art = 0
    for t in TABLES:
        got = {}
        for tx in sets[t]:
            if tx.row < 0:
                n_art += 1
                continue
            S.expect(tx.row not in got, "C11", "row-read-twice", "sheet row %d produced two %s-transactions" % (tx.row, t))
            got[tx.row] = tx
        want_rows = sorted(where[(t, i)] for i in range(len(rowsets.get(t, []))))
        S.expect(sorted(got) == want_rows, "C11", "row-set", "%s-table rows parsed %s, sheet has data rows %s" % (t, sorted(got), want_rows))
        for i, rv in enumerate(rowsets.get(t, [])):
            check_tx(S, "C11", got[where[(t, i)]], rv, layouts[t], where[(t, i)], inp)
    want_art = sum(1 for rvs in rowsets.values() for rv in rvs if rv.table == "in" and "crypto_fee" in rv.v and "crypto_fee" in layouts["in"])
    S.expect(n_art == want_art, "C11", "artificial-count", "%d artificial transactions, expected %d" % (n_art, want_art))
    S.observe("rows", {t: sorted(tx.row for tx in sets[t] if tx.row > 0) for t in TABLES})
    S.observe("artificial", n_art)
    S.note("transactions", sum(len(v) for v in sets.values()))
    return "ok"


# ---------------------------------------------------------------------------------------------------------------
def run_fault(S, spec):
    from rp2.ods_parser import parse_ods  # pylint: disable=import-outside-toplevel
    from rp2.rp2_error import RP2Error  # pylint: disable=import-outside-toplevel

    t, f, fault = spec["table"], spec["field"], spec["fault"]
    layouts = {x: layout(spec["layout"], x) for x in TABLES}
    width = _width(layouts)
    pat = dict(FEW[t][1])
    if t == "in" and f == "fiat_fee":
        pat = dict(FEW["in"][2])
        pat["withfee"] = 1
    if t == "intra":
        pat = {"fee": "pos", "price": 1, "txt": 1}  # with a spot price, so that a missing price does not mask the fault
    good = RowVars(S, t, FEW[t][0], "g")
    bad = RowVars(S, t, pat, "b")
    applicable = True
    if spec["mode"] == "numfault":
        if fault == "neg":
            bad.v[f] = S.int("v", -AMT_MAX, -UNIT)
            if t == "intra" and f == "crypto_received":
                bad.v["crypto_sent"] = S.int("snt", UNIT, AMT_MAX)
        elif fault == "zero":
            # zero is a fault only where a non-zero value is required
            required = {"in": ("spot_price", "crypto_in", "fiat_in_no_fee", "fiat_in_with_fee"), "out": ("spot_price", "crypto_out_no_fee", "crypto_out_with_fee", "fiat_out_no_fee"), "intra": ("crypto_sent", "spot_price")}[t]
            applicable = f in required
            bad.v[f] = 0
            if t == "intra" and f == "crypto_sent":
                bad.v["crypto_received"] = 0
        elif fault == "gt_sent":
            bad.v["crypto_sent"] = S.int("snt", UNIT, AMT_MAX)
            bad.v["crypto_received"] = bad.v["crypto_sent"] + S.int("exc", 2 * UNIT, AMT_MAX)
        elif fault == "both_fees":
            bad.v["crypto_fee"] = S.int("cf2", UNIT, AMT_MAX)
            bad.v["fiat_fee"] = S.int("ff2", UNIT, AMT_MAX)
        elif fault == "empty_price_with_fee":
            bad.v.pop("spot_price", None)
        if not applicable:
            return "n/a"
    else:
        cellv = {"naive_ts": "2020-03-04 10:11:12", "bad_ts": "not a time", "empty": None, "number": 17.0, "unknown": "Q9", "other_asset": "B2", "case": None, "text": "abc"}.get(fault)
        if fault == "case":
            cellv = bad.cell(S, f).lower()
        if fault.startswith("type:"):
            cellv = fault[5:]
            allowed = {"in": ("AIRDROP", "BUY", "DONATE", "GIFT", "HARDFORK", "INCOME", "INTEREST", "MINING", "STAKING", "WAGES"), "out": ("DONATE", "FEE", "GIFT", "LOST", "SELL", "STAKING"), "intra": ()}[t]
            if cellv in allowed:
                if t == "out" and (cellv == "FEE") != (pat["typ"] == "FEE"):
                    return "n/a"
                applicable = False
        if fault != "short_row":
            bad.cell(S, f)
            bad.cells[f] = cellv
    rowsets = {t: [good, bad]}
    if t != "in":
        rowsets["in"] = [RowVars(S, "in", FEW["in"][0], "c")]
    cfg = _cfg(write_ini(layouts))
    rows, where = _build_sheet(S, layouts, list(TABLES), 0, rowsets, width)
    if fault == "short_row":
        r = where[(t, 1)] - 1
        rows[r] = rows[r][: max(layouts[t].values())]
    doc = Doc({"B1": Sheet(lambda: rows)})
    try:
        inp = parse_ods(cfg, "B1", doc)
    except RP2Error as e:
        S.expect(applicable, "C12", "valid-rejected", "a valid variant was rejected: %s" % str(e)[:200])
        S.note("rejected")
        return "rejected"
    if applicable:
        n = sum(len(v) for v in _sets(inp).values())
        S.fail("C12", "fault-accepted", "%s.%s with fault '%s' was accepted (%d transactions parsed)" % (t, f, fault, n))
    return "accepted-valid"


# ---------------------------------------------------------------------------------------------------------------
ROWKINDS = ("IN", "OUT", "INTRA", "END", "EMPTY", "JUNK", "HEADER", "DATA")


def run_structure(S, spec):
    """row kinds are symbolic and realised only when the parser asks for the row"""
    from rp2.ods_parser import parse_ods  # pylint: disable=import-outside-toplevel
    from rp2.rp2_error import RP2Error  # pylint: disable=import-outside-toplevel

    n = spec["n"]
    layouts = {x: layout("base", x) for x in TABLES}
    width = _width(layouts)
    cfg = _cfg(write_ini(layouts))
    codes = [S.int("k%d" % i, 0, len(ROWKINDS) - 1) for i in range(n)]
    for i, kind in enumerate(spec.get("prefix") or []):
        S.assume_cmp(codes[i], "==", ROWKINDS.index(kind))
    kinds = []
    # oracle state, advanced while rows are produced: table currently open, position in it, tables seen, verdict
    st = {"open": None, "pos": 0, "seen": [], "data": {"in": 0, "out": 0, "intra": 0}, "must_reject": None, "free": None}

    def flag(kind, why):
        if st[kind] is None:
            st[kind] = why

    def gen():
        for i in range(n):
            k = ROWKINDS[S.value(codes[i])]
            kinds.append(k)
            cur, pos = st["open"], st["pos"]
            row = None
            if k in ("IN", "OUT", "INTRA"):
                t = k.lower()
                if cur is not None:
                    flag("must_reject", "nested table")
                elif t in st["seen"]:
                    flag("must_reject", "repeated table")
                st["seen"].append(t)
                st["open"], st["pos"] = t, 0
                row = kw_row(k, width)
            elif k == "END":
                if cur is None:
                    flag("must_reject", "TABLE END outside a table")
                elif pos == 0:
                    flag("free", "table without header")
                st["open"] = None
                row = kw_row("TABLE END", width)
            elif k == "EMPTY":
                if cur is not None:
                    flag("must_reject", "empty row inside a table")
                row = [None] * width
            elif k == "JUNK":
                if cur is None:
                    flag("must_reject", "data outside a table")
                elif pos != 0:
                    flag("must_reject", "junk row in a data position")
                row = ["junk"] + [None] * (width - 1)
            elif k == "HEADER":
                if cur is None:
                    flag("must_reject", "data outside a table")
                elif pos != 0:
                    flag("must_reject", "header row in a data position")
                row = header_row(cur or "in", layouts[cur or "in"], width)
            else:
                t = cur or "in"
                rv = RowVars(S, t, FEW[t][0], "r%d" % i)
                if cur is None:
                    flag("must_reject", "data outside a table")
                elif pos == 0:
                    flag("must_reject", "data without header")
                else:
                    st["data"][t] += 1
                row = rv.values(S, layouts[t], width)
            if cur is not None and k not in ("END",):
                st["pos"] = pos + 1
            yield row

    rows_it = gen()
    doc = Doc({"B1": Sheet(lambda: rows_it)})
    err = None
    try:
        inp = parse_ods(cfg, "B1", doc)
    except RP2Error as e:
        err = e
    if err is None:
        # a parser that returns before the end of the sheet has skipped rows: the rest of the sheet is realised as well, so
        # that a fault sitting in the part it never looked at counts
        for _row in rows_it:
            pass
    seq = ",".join(kinds)
    if err is None:
        # the whole sheet was consumed: end-of-sheet faults
        if st["open"] is not None:
            flag("must_reject", "missing TABLE END")
        if st["data"]["in"] == 0:
            flag("must_reject", "missing or empty IN table")
        S.expect(st["must_reject"] is None, "C12", "structure-accepted", "sheet [%s] was accepted although: %s" % (seq, st["must_reject"]))
        got = {t: len(v) for t, v in _sets(inp).items()}
        if st["free"] is None:
            S.expect(got == st["data"], "C12", "structure-rows", "sheet [%s]: parsed %s, sheet holds %s" % (seq, got, st["data"]))
        S.note("accepted")
        S.observe("seq", seq)
        return "accepted"
    # rejected after reading len(kinds) rows: legitimate iff a fault is present in what was read, or an end-of-sheet fault applies
    reason = st["must_reject"] or st["free"]
    if reason is None and len(kinds) == n:
        if st["open"] is not None:
            reason = "missing TABLE END"
        elif st["data"]["in"] == 0:
            reason = "missing or empty IN table"
    S.expect(reason is not None, "C12", "structure-rejected", "well-formed sheet [%s] was rejected: %s" % (seq, str(err)[:160]))
    S.note("rejected")
    return "rejected"
