"""C17 results depend only on the input: order- and asset-independent (relational, several real runs on one path).

(a) the same symbolic history entered with two different row orders / row numbers (instants pairwise distinct): fractions,
    figures, long/short flags, yearly lines, balances and average price must be identical up to row numbers;
(b) asset X computed alone (fresh Configuration, AccountingEngine, method objects) vs after asset Y with everything shared,
    as rp2_main processes several assets: identical ComputedData, and identical recorded cells of X's two sheets in the
    full report generated for {X} and for {Y, X}.
Symbolic: instants, amounts, prices, fees.  Enumerated: skeletons, permutations, methods.
"""
from itertools import permutations

from . import reportlib
from .common import Hist, make_cfg, method_tree, slots_of

PROPS = ("C17",)
BUDGET = {"quick": 1200, "thorough": 1500}
CHUNK = 60


def jobs(tier):
    js = []
    codes = ["BBS", "BSS", "BIS", "BMS"] if tier == "quick" else ["BBS", "BSS", "BIS", "BMS", "BBSS", "BSBS", "BISS"]
    for code in codes:
        n = len(code)
        perms = [p for p in permutations(range(n)) if p != tuple(range(n))]
        if n == 4 or tier == "quick":
            perms = perms[:: max(1, len(perms) // 3)][:3] + [tuple(reversed(range(n)))]
        for p in sorted(set(perms)):
            for m in ("fifo", "hifo") if tier == "quick" else ("fifo", "lifo", "hifo", "lofo"):
                js.append({"form": "a", "code": code, "perm": list(p), "method": m})
    for x, y in [("BBS", "BB"), ("BSS", "BS"), ("BIS", "BI")] if tier == "quick" else [("BBS", "BB"), ("BSS", "BS"), ("BIS", "BI"), ("BBSS", "BB"), ("BMS", "BM")]:
        for m in ("fifo", "lifo", "hifo", "lofo"):
            js.append({"form": "b", "x": x, "y": y, "method": m, "report": m in ("hifo",) and x == "BBS"})
    # the open-positions report of {X} and of {Y, X}: X's rows (values and number formats) must not depend on Y
    for x, y in [("BS", "B"), ("BB", "B")] if tier == "quick" else [("BS", "B"), ("BB", "B"), ("BBS", "BB"), ("BIS", "BS")]:
        js.append({"form": "b", "x": x, "y": y, "method": "fifo", "report": "open"})
    return js


def describe(spec):
    if spec["form"] == "a":
        return "C17a %s perm=%s %s" % (spec["code"], "".join(map(str, spec["perm"])), spec["method"])
    return "C17b X=%s after Y=%s %s%s" % (spec["x"], spec["y"], spec["method"], " +open-positions report" if spec["report"] == "open" else " +report" if spec["report"] else "")


def weight(spec):
    return (len(spec.get("code", spec.get("x", ""))) * 10) + (20 if spec.get("report") else 0)


def bounds(tier):
    return {"C17a": "histories of 3%s transactions, row orders: %s; instants pairwise distinct" % ("" if tier == "quick" else "-4", "3 permutations + reversal" if tier == "quick" else "all permutations of 3, selected of 4"), "C17b": "asset X of 3 transactions computed alone vs after an asset Y of 2 whose lots sit on the same sheet rows, 4 methods; for one job also the cells (values, formulas and the visual/data style names passed to _fill_cell) of X's sheets in the full report; for X of 2%s transactions and Y of 1%s also X's rows of the open-positions report (asset-local columns and their styles)" % (("", "") if tier == "quick" else ("-3", "-2")), "amounts": "k*1e-11 in [1e-11, 1e9]", "prices": "k*1e-4 in [1e-4, 1e6]", "outside": ["PYTHONHASHSEED, repeated processes and files already in the output directory (no symbolic input: not decided here)", "equal timestamps under reordering (the property excludes them)"]}


def assumptions():
    return ["allow_negative_balances=True", "UTC timestamps", "C17a: the permuted entry differs in row numbers and in the order in which the transactions are added to their tables"]


def snapshot(S, cd, row2slot):
    gl = []
    gls = cd.gain_loss_set
    for g in gls:
        lot = g.acquired_lot
        gl.append({
            "id": (row2slot[g.taxable_event.row], row2slot[lot.row] if lot is not None else None),
            "long": bool(g.is_long_term_capital_gains()),
            "num": (gls.get_taxable_event_fraction(g), gls.get_taxable_event_number_of_fractions(g.taxable_event), gls.get_acquired_lot_fraction(g) if lot is not None else None, gls.get_acquired_lot_number_of_fractions(lot) if lot is not None else None),
            "fig": (S.ex(g.crypto_amount), S.ex(g.taxable_event_fiat_amount_with_fee_fraction), S.ex(g.fiat_cost_basis), S.ex(g.fiat_gain)),
        })
    yearly = {(y.year, y.transaction_type.name, y.is_long_term_capital_gains): (S.ex(y.crypto_amount), S.ex(y.fiat_amount), S.ex(y.fiat_cost_basis), S.ex(y.fiat_gain_loss)) for y in cd.yearly_gain_loss_list}
    balances = {(b.exchange, b.holder): (S.ex(b.final_balance), S.ex(b.acquired_balance), S.ex(b.sent_balance), S.ex(b.received_balance)) for b in cd.balance_set}
    return {"gl": gl, "yearly": yearly, "balances": balances, "ppu": S.ex(cd.price_per_unit), "taxable": [row2slot[t.row] for t in cd.taxable_event_set]}


def compare(S, what, a, b):
    S.expect([g["id"] for g in a["gl"]] == [g["id"] for g in b["gl"]], "C17", what + "-pairing", "event/lot pairing differs: %s vs %s" % ([g["id"] for g in a["gl"]], [g["id"] for g in b["gl"]]))
    for x, y in zip(a["gl"], b["gl"]):
        S.expect(x["long"] == y["long"] and x["num"] == y["num"], "C17", what + "-flags", "flags / numbering of fraction %s" % (x["id"],))
        for u, v, nm in zip(x["fig"], y["fig"], ("amount", "proceeds", "cost", "gain")):
            S.expect(S.eq(u, v), "C17", what + "-" + nm, "%s of fraction %s differs" % (nm, x["id"]))
    S.expect(a["taxable"] == b["taxable"], "C17", what + "-taxable-events", "%s vs %s" % (a["taxable"], b["taxable"]))
    for key in ("yearly", "balances"):
        S.expect(sorted(a[key]) == sorted(b[key]), "C17", what + "-" + key + "-keys", "%s vs %s" % (sorted(a[key]), sorted(b[key])))
        for k in a[key]:
            for u, v in zip(a[key][k], b[key][k]):
                S.expect(S.eq(u, v), "C17", what + "-" + key, "entry %s differs" % (k,))
    S.expect(S.eq(a["ppu"], b["ppu"]), "C17", what + "-average-price")


def run(S, spec):
    S.set_years([2020])
    if spec["form"] == "a":
        return run_a(S, spec)
    return run_b(S, spec)


def run_a(S, spec):
    from rp2.accounting_engine import AccountingEngine  # pylint: disable=import-outside-toplevel
    from rp2.rp2_error import RP2ValueError  # pylint: disable=import-outside-toplevel
    from rp2.tax_engine import compute_tax  # pylint: disable=import-outside-toplevel

    slots = slots_of(spec["code"])
    n = len(slots)
    h = Hist(S, slots, [2020])
    for i in range(n):
        for j in range(i + 1, n):
            S.assume_cmp(h.t[i], "!=", h.t[j])
    cfg = make_cfg("us", allow_negative=True)
    sched = {"2020": spec["method"]}
    try:
        cd1 = compute_tax(cfg, AccountingEngine(method_tree(sched)), h.build(cfg))
    except RP2ValueError:
        return "error"
    # the same history entered in another order, with other row numbers
    perm = spec["perm"]
    hp = Hist.__new__(Hist)
    hp.__dict__.update(h.__dict__)
    hp.slots = [dict(slots[k], row=20 + pos) for pos, k in enumerate(perm)]
    hp.t, hp.off, hp.a, hp.p, hp.f = ([lst[k] for k in perm] for lst in (h.t, h.off, h.a, h.p, h.f))
    hp.txs = [None] * n
    cfg2 = make_cfg("us", allow_negative=True)
    try:
        cd2 = compute_tax(cfg2, AccountingEngine(method_tree(sched)), hp.build(cfg2))
    except RP2ValueError as e:
        S.fail("C17", "reorder-error", "the reordered history is rejected: %s" % str(e)[:160])
    s1 = snapshot(S, cd1, {10 + i: i for i in range(n)})
    s2 = snapshot(S, cd2, {20 + pos: k for pos, k in enumerate(perm)})
    compare(S, "reorder", s1, s2)
    S.observe("pairing", [g["id"] for g in s1["gl"]])
    S.note("fractions", len(s1["gl"]))
    return "ok"


def _same_cell(S, a, b):
    if hasattr(a, "parts") or hasattr(b, "parts"):
        pa, pb = list(getattr(a, "parts", [a])), list(getattr(b, "parts", [b]))
        if len(pa) != len(pb):
            return False
        for x, y in zip(pa, pb):
            vx, vy = reportlib.part_value(S, x), reportlib.part_value(S, y)
            if vx[0] != vy[0]:
                return False
            if vx[0] == "num":
                if not S.eq(vx[1], vy[1]):
                    return False
            elif vx[0] == "ts":
                if not vx[1] == vy[1]:
                    return False
            elif vx[1] != vy[1]:
                return False
        return True
    if isinstance(a, str) or isinstance(b, str):
        return isinstance(a, str) and isinstance(b, str) and a == b
    if hasattr(a, "utcoffset") or hasattr(b, "utcoffset"):
        return a == b
    if isinstance(a, (int,)) and isinstance(b, (int,)):
        return a == b
    return S.eq(S.ex(a), S.ex(b))


def _open_positions(S, cfg, spec, cd_alone, cd_y, cd_after):
    """X's rows on the 'Asset' and 'Asset - Exchange' sheets: the asset-local columns (names, balance, per-unit cost, cost
    basis) and the styles of those cells and of the per-unit input-price cell; the weight column and the row-numbered
    formulas legitimately depend on the other assets listed"""
    import rp2.plugin.report.open_positions as m  # pylint: disable=import-outside-toplevel

    out = []
    for cds in ({"B2": cd_alone}, {"B1": cd_y, "B2": cd_after}):
        for _k, v in list(vars(m.Generator).items()):
            if isinstance(v, dict):
                v.clear()
        rec, err = reportlib.generate(S, "open_positions", cfg.country, cds, {1970: spec["method"]}, cfg.from_date, cfg.to_date, lang="en")
        if err is not None:
            if not out:
                return  # X alone cannot be reported (e.g. nothing left): C15 / C16 territory
            S.fail("C17", "generator-exception", "open positions of {B1, B2}: %s: %s" % (type(err).__name__, str(err)[:200]))
        got = {}
        for sheet, nkey, local, styled in (("Asset", 2, (2, 3, 4), (0, 1, 2, 3, 4, 6)), ("Asset - Exchange", 3, (3, 4, 5), (0, 1, 2, 3, 4, 5, 7))):
            rows = rec.rows(sheet)
            sty = rec.styles.get(sheet, {})
            for r in sorted(rows):
                c = rows[r]
                if r >= 3 and type(c.get(0)) is str and c.get(0) == "B2":  # pylint: disable=unidiomatic-typecheck
                    got[(sheet,) + tuple(c.get(i) for i in range(1, nkey))] = ([S.ex(c.get(i)) for i in local], [sty.get((r, i)) for i in styled])
        out.append(got)
    a, b = out
    S.expect(sorted(a) == sorted(b), "C17", "open-positions-rows", "rows of B2 differ when B1 is reported as well: %s vs %s" % (sorted(a), sorted(b)))
    for k in a:
        for u, v in zip(a[k][0], b[k][0]):
            S.expect(S.eq(u, v), "C17", "open-positions-value", "row %s of B2 differs when B1 is reported as well" % (k,))
        S.expect(a[k][1] == b[k][1], "C17", "open-positions-style", "row %s of B2: cell styles %s vs %s when B1 is reported as well" % (k, a[k][1], b[k][1]))
    S.note("open_rows", len(a))


def run_b(S, spec):
    from rp2.accounting_engine import AccountingEngine  # pylint: disable=import-outside-toplevel
    from rp2.rp2_error import RP2ValueError  # pylint: disable=import-outside-toplevel
    from rp2.tax_engine import compute_tax  # pylint: disable=import-outside-toplevel

    sx = slots_of(spec["x"], asset="B2")
    sy = slots_of(spec["y"], asset="B1")  # B1 sorts first: rp2_main processes it before B2
    for i, s in enumerate(sx):
        s["row"] = 10 + i
    for i, s in enumerate(sy):
        s["row"] = 10 + i
    hx = Hist(S, sx, [2020], prefix="x")
    hy = Hist(S, sy, [2020], prefix="y")
    sched = {"2020": spec["method"]}
    cfg_alone = make_cfg("us", allow_negative=True)
    try:
        cd_alone = compute_tax(cfg_alone, AccountingEngine(method_tree(sched)), hx.build(cfg_alone, "B2"))
    except RP2ValueError:
        return "error"
    cfg = make_cfg("us", allow_negative=True)
    engine = AccountingEngine(method_tree(sched))
    try:
        cd_y = compute_tax(cfg, engine, hy.build(cfg, "B1"))
    except RP2ValueError:
        return "error-y"
    try:
        cd_after = compute_tax(cfg, engine, hx.build(cfg, "B2"))
    except RP2ValueError as e:
        S.fail("C17", "asset-error", "asset X is rejected when computed after asset Y: %s" % str(e)[:160])
    r2s = {10 + i: i for i in range(len(sx))}
    s_alone, s_after = snapshot(S, cd_alone, r2s), snapshot(S, cd_after, r2s)
    compare(S, "asset", s_alone, s_after)
    if spec["report"] == "open":
        _open_positions(S, cfg, spec, cd_alone, cd_y, cd_after)
    elif spec["report"]:
        recs = []
        for cds in ({"B2": cd_alone}, {"B1": cd_y, "B2": cd_after}):
            import rp2.plugin.report.rp2_full_report as m  # pylint: disable=import-outside-toplevel

            for _k, v in list(vars(m.Generator).items()):
                if isinstance(v, dict):
                    v.clear()
            rec, err = reportlib.generate(S, "rp2_full_report", cfg.country, cds, {1970: spec["method"]}, cfg.from_date, cfg.to_date, lang="en")
            if err is not None:
                S.fail("C17", "generator-exception", "%s: %s" % (type(err).__name__, str(err)[:200]))
            recs.append(rec)
        for sheet in ("B2 In-Out", "B2 Tax"):
            a, b = recs[0].sheets.get(sheet, {}), recs[1].sheets.get(sheet, {})
            S.expect(sorted(a) == sorted(b), "C17", "report-cells", "sheet %r has different cells when asset B1 is processed as well" % sheet)
            for pos in a:
                S.expect(_same_cell(S, a[pos], b[pos]), "C17", "report-cell-value", "sheet %r cell %s differs when asset B1 is processed as well" % (sheet, pos))
            S.expect(recs[0].styles.get(sheet) == recs[1].styles.get(sheet), "C17", "report-cell-style", "sheet %r: cell styles differ when asset B1 is processed as well" % sheet)
    S.observe("pairing", [g["id"] for g in s_alone["gl"]])
    S.note("fractions", len(s_alone["gl"]))
    return "ok"
