"""C01 (lots consumed in the method's order) and C02 (coverage / conservation / error iff uncovered).

Unit driven: rp2.tax_engine.compute_tax -> AccountingEngine, method plugins, GainLoss, GainLossSet (real code).
Symbolic: instants (ties included), amounts, prices, transfer/out fees, optionally one UTC offset per slot.
Enumerated: skeletons, methods, two-year schedules.
"""
from itertools import product

from . import common
from .common import Hist, make_cfg, method_for_year, run_tax, slots_of

PROPS = ("C01", "C02")
ERR_TEXT = "Total in-transaction crypto value < total taxable crypto value"
METHODS = ("fifo", "lifo", "hifo", "lofo")


def _skeletons(n, alphabet="BISM", min_lots=1, min_disp=1):
    out = []
    for tup in product(alphabet, repeat=n):
        code = "".join(tup)
        if code[0] not in "BI":
            continue  # a history starts with an acquisition (the IN table cannot be empty)
        lots = sum(c in "BI" for c in code)
        disp = sum(c in "SM" for c in code)
        if lots < min_lots or disp < min_disp:
            continue
        out.append(code)
    return out


def jobs(tier):
    js = []

    def add(code, schedule, **kw):
        j = {"code": code, "schedule": schedule, "years": [2020, 2021] if len(schedule) > 1 else [2020], "tz": False, "sell_all": False}
        j.update(kw)
        js.append(j)

    three = _skeletons(3)
    four_sel = ["BBSS", "BISS", "BIBS", "IBSS", "BSBS", "BIMS", "BBMS", "BBSM", "BSIS"]
    for m in METHODS:
        for code in three:
            add(code, {"2020": m})
        for code in four_sel:
            add(code, {"2020": m})
        # mixed time zones: an own symbolic UTC offset per slot
        for code in ("BBS", "BIS", "BSS"):
            add(code, {"2020": m}, tz=True)
        # sell-all twin
        for code in ("BB", "BI", "BS", "BBS", "BIS", "BSB"):
            add(code, {"2020": m}, sell_all=True)
        # sheet rows whose numbers have different digit counts (9, 10, 100): equal instants are disambiguated by the row number
        for code in ("BBS", "BIS", "BBB"):
            add(code + "S" if code == "BBB" else code, {"2020": m}, rows=[9, 10, 100, 101])
    # year-over-year method changes: all ordered pairs of distinct methods
    for m1 in METHODS:
        for m2 in METHODS:
            if m1 != m2:
                for code in ("BBS", "BSS", "BIS", "BBSS", "BSBS"):
                    add(code, {"2020": m1, "2021": m2})
    # three-entry schedules (the year -> method tree then has a node with two children)
    for ms in (("fifo", "hifo", "lifo"), ("hifo", "lifo", "lofo"), ("lofo", "hifo", "lifo"), ("lifo", "lofo", "fifo")):
        for code in ("BBS",) if tier == "quick" else ("BBS", "BBSS", "BIS"):
            js.append({"code": code, "schedule": {"2020": ms[0], "2021": ms[1], "2022": ms[2]}, "years": [2020, 2021, 2022], "tz": False, "sell_all": False})
    # a long run of disposals against few lots, instants strictly increasing (no tie forks): state carried across many events
    for m in ("hifo", "lifo") if tier == "quick" else METHODS:
        js.append({"code": "BBSSSSS" if tier == "quick" else "BBSSSSSS", "schedule": {"2020": m}, "years": [2020], "tz": False, "sell_all": False, "strict": True})
    if tier == "thorough":
        four = _skeletons(4)
        for m in METHODS:
            for code in four:
                if code not in four_sel:
                    add(code, {"2020": m})
            for code in ("BBSSS", "BIBSS", "BISBS", "BBSBS", "BIMSS", "BSISS"):
                add(code, {"2020": m})
            for code in ("BBSS", "BISS", "BIBS", "BSBS"):
                add(code, {"2020": m}, tz=True)
            for code in ("BBSS", "BISS", "BSBS", "BIMS"):
                add(code, {"2020": m}, sell_all=True)
        for m1 in METHODS:
            for m2 in METHODS:
                if m1 != m2:
                    for code in ("BISS", "BIBS", "BBMS", "BSIS"):
                        add(code, {"2020": m1, "2021": m2})
    return js


def bounds(tier):
    return {
        "history_length": "all skeletons over {BUY, INTEREST, SELL, MOVE-with-fee} of length 3 and selected of length 4" if tier == "quick" else "all skeletons of length 4 and selected of length 5",
        "long_runs": "2 lots then %d disposals, instants strictly increasing (%s)" % ((5, "hifo, lifo") if tier == "quick" else (6, "4 methods")),
        "methods": list(METHODS),
        "schedules": "single method, every ordered pair (m1 from 2020, m2 from 2021), and four three-entry schedules (2020, 2021, 2022)",
        "amounts": "k*1e-11, k in [1, 1e20]",
        "prices": "k*1e-4, k in [1, 1e10]",
        "instants": "microseconds inside the window years (1 year; 2 years for schedules), ties allowed, non-decreasing in slot order",
        "utc_offsets": "jobs marked tz: one symbolic offset per slot, whole minutes in [-720, 840]; otherwise UTC",
        "outside": ["longer histories", "per-wallet application", "tie-break order among equally ranked lots", "schedules with more than 3 entries", "rows not in time order (C17)"],
    }


def assumptions():
    return ["allow_negative_balances=True (only the tax engine's own coverage error is in play; C08 covers the balance guard)", "rows follow slot order and slot order follows time (ties allowed)", "out-transactions have no exchange-supplied crypto_out_with_fee"]


def weight(spec):
    return len(spec["code"]) * 10 + (5 if spec["tz"] else 0) + (3 if spec["sell_all"] else 0) + (2 if any(m in ("hifo", "lofo") for m in spec["schedule"].values()) else 0)


def describe(spec):
    return "%s %s%s%s%s" % (spec["code"], ",".join("%s:%s" % kv for kv in sorted(spec["schedule"].items())), " tz" if spec["tz"] else "", " +sell-all" if spec["sell_all"] else "", " rows=9,10,100" if spec.get("rows") else "") + (" strictly-increasing" if spec.get("strict") else "")


def run(S, spec):
    from rp2.rp2_error import RP2ValueError  # pylint: disable=import-outside-toplevel

    years = spec["years"]
    S.set_years(years)
    slots = slots_of(spec["code"])
    if spec["sell_all"]:
        slots = slots + slots_of("S")
    if spec.get("rows"):
        for s_, r_ in zip(slots, spec["rows"]):
            s_["row"] = r_
    h = Hist(S, slots, years, tz=spec["tz"])
    n = len(slots)
    if spec.get("strict"):
        for i in range(1, n):
            S.assume_cmp(h.t[i - 1], "<", h.t[i])
    lots = [i for i in range(n) if h.is_lot(i)]
    disp = [i for i in range(n) if h.is_out(i) or h.is_move(i)]
    if spec["sell_all"]:
        last = n - 1
        total_in = sum(h.a[i] for i in lots)
        total_out = sum(h.need(i) for i in disp if i != last)
        S.assume_cmp(h.a[last], "==", total_in - total_out)
    cfg = make_cfg("us", allow_negative=True)
    inp = h.build(cfg)
    err = None
    cd = None
    try:
        cd = run_tax(cfg, spec["schedule"], inp)
    except RP2ValueError as e:
        err = e
    # ---- ground truth
    t, a = h.t, h.a

    def over():
        for d in disp:
            need = sum(h.need(e) for e in disp if t[e] <= t[d])
            have = sum(a[l] for l in lots if t[l] <= t[d])
            if need > have:
                return True
        return False

    if err is not None:
        if S.want("C02"):
            S.expect(ERR_TEXT in str(err), "C02", "other-error", str(err)[:200])
            S.expect(over(), "C02", "spurious-error", "run rejected although every disposal is covered by earlier lots")
        S.note("error-paths")
        return "error"
    if S.want("C02"):
        S.expect(not over(), "C02", "missed-overspend", "run succeeded although a disposal is not covered")
    # ---- fractions in order of creation
    row2slot = {h.row(i): i for i in range(n)}
    fr = []
    for g in cd.gain_loss_set:
        e = row2slot[g.taxable_event.row]
        L = row2slot[g.acquired_lot.row] if g.acquired_lot is not None else None
        fr.append((e, L, S.ex(g.crypto_amount), g))
    S.observe("fractions", [(e, L, x) for e, L, x, _ in fr])
    S.note("fractions", len(fr))
    if S.want("C02"):
        per_event = {}
        per_lot = {}
        for e, L, x, _ in fr:
            S.expect(x > 0, "C02", "non-positive-fraction")
            per_event[e] = per_event.get(e, 0) + x
            if L is not None:
                S.expect(not h.is_earn(e), "C02", "earn-with-lot")
                S.expect(t[L] <= t[e], "C02", "lot-after-event", "fraction taken from a lot acquired after the disposal")
                per_lot[L] = per_lot.get(L, 0) + x
            else:
                S.expect(h.is_earn(e), "C02", "disposal-without-lot")
        for d in disp:
            S.expect(S.ex_int(h.need(d), 11) == per_event.get(d, 0), "C02", "event-sum", "fractions of slot %d do not sum to the amount leaving the holder" % d)
        for i in lots:
            if h.is_earn(i):
                S.expect(S.ex_int(a[i], 11) == per_event.get(i, 0), "C02", "earn-sum")
            got = per_lot.get(i, 0)
            S.expect(S.ex_int(a[i], 11) >= got, "C02", "lot-overspent", "lot of slot %d overspent" % i)
            if spec["sell_all"]:
                S.expect(S.ex_int(a[i], 11) == got, "C02", "sell-all-not-exhausted", "lot of slot %d not exactly exhausted" % i)
    if S.want("C01"):
        consumed = {l: 0 for l in lots}
        p = h.p
        for e, L, x, g in fr:
            if L is None:
                continue
            S.expect(t[L] <= t[e], "C01", "lot-after-event")
            year = g.taxable_event.timestamp.year  # local year of the disposal (forks over the window)
            m = method_for_year(spec["schedule"], year)
            for M in lots:
                if M == L:
                    continue
                if not t[M] <= t[e]:
                    continue
                if not S.ex_int(a[M], 11) - consumed[M] > 0:
                    continue
                if m == "fifo":
                    better = t[M] < t[L]
                elif m == "lifo":
                    better = t[M] > t[L]
                elif m == "hifo":
                    better = p[M] > p[L]
                else:
                    better = p[M] < p[L]
                S.expect(not better, "C01", "order", "slot %d consumed under %s while better-ranked slot %d still had balance" % (L, m, M), method=m)
            consumed[L] = consumed[L] + x
        # every fraction also carries the right long/short flag is C05's business; here only the order
    return "ok"
