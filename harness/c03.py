"""C03 exactly the taxable transactions are taxed, each once and in full.

Unit driven: real transaction constructors (type x table acceptance) and compute_tax (taxable event set, gain/loss set).
Symbolic: amounts, prices, out/transfer fees (zero or not is decided by the solver), instants (ties allowed).
Enumerated: the 14 transaction types x 3 tables as subject slot, its position among the context slots, 2 methods.
"""
from .common import ALL_TYPES, EARN_TYPES, IN_TYPES, OUT_TYPES, Hist, make_cfg, run_tax, slot, slots_of

PROPS = ("C03",)
BUDGET = {"quick": 600, "thorough": 1500}


def jobs(tier):
    js = []
    for table, allowed in (("IN", IN_TYPES), ("OUT", OUT_TYPES)):
        for typ in ALL_TYPES:
            js.append({"mode": "ctor", "table": table, "type": typ, "allowed": typ in allowed})
    subjects = [("IN", t) for t in IN_TYPES] + [("OUT", t) for t in OUT_TYPES] + [("INTRA", "MOVE"), ("INTRA", "MOVE-self")]
    contexts = ["BS"] if tier == "quick" else ["BS", "BSM", "IBS"]
    methods = ["fifo", "hifo"] if tier == "quick" else ["fifo", "lifo", "hifo"]
    for ctx in contexts:
        for table, typ in subjects:
            for pos in range(len(ctx) + 1):
                for m in methods:
                    js.append({"mode": "hist", "ctx": ctx, "table": table, "type": typ, "pos": pos, "method": m})
    return js


def describe(spec):
    if spec["mode"] == "ctor":
        return "ctor %s:%s" % (spec["table"], spec["type"])
    return "hist %s+%s:%s@%d %s" % (spec["ctx"], spec["table"], spec["type"], spec["pos"], spec["method"])


def weight(spec):
    return 0 if spec["mode"] == "ctor" else len(spec["ctx"]) * 10 + (3 if spec["method"] in ("hifo", "lofo") else 0)


def bounds(tier):
    return {
        "constructor_table": "14 types x {IN, OUT} tables, symbolic amount/price/fee",
        "histories": "context %s with the subject slot (each of 10 IN types, 6 OUT types, MOVE between two accounts, MOVE to the same account) inserted at every position" % (["BS"] if tier == "quick" else ["BS", "BSM", "IBS"]),
        "amounts": "k*1e-11, k in [1, 1e20]; fees k in [0, 1e20]",
        "prices": "k*1e-4, k in [1, 1e10]",
        "outside": ["negative STAKING income", "exchange-supplied fiat columns (C04)", "longer histories"],
    }


def assumptions():
    return ["allow_negative_balances=True", "histories that over-spend end in the documented RP2ValueError and are not inspected further (C02 decides those)"]


def run(S, spec):
    from rp2.in_transaction import InTransaction  # pylint: disable=import-outside-toplevel
    from rp2.out_transaction import OutTransaction  # pylint: disable=import-outside-toplevel
    from rp2.rp2_decimal import ZERO  # pylint: disable=import-outside-toplevel
    from rp2.rp2_error import RP2ValueError  # pylint: disable=import-outside-toplevel

    S.set_years([2020])
    if spec["mode"] == "ctor":
        cfg = make_cfg("us")
        h = Hist(S, [slot(spec["table"], spec["type"], fee="any")], [2020])
        ts, price, amt = S.ts(h.t[0]), S.dec(h.p[0], 4), S.dec(h.a[0], 11)
        try:
            if spec["table"] == "IN":
                tx = InTransaction(cfg, ts, "B1", "X1", "H1", spec["type"], price, amt, fiat_fee=ZERO, row=10)
            elif spec["type"] == "FEE":
                S.assume(h.f[0] > 0)
                tx = OutTransaction(cfg, ts, "B1", "X1", "H1", spec["type"], price, ZERO, S.dec(h.f[0], 11), row=10)
            else:
                tx = OutTransaction(cfg, ts, "B1", "X1", "H1", spec["type"], price, amt, S.dec(h.f[0], 11), row=10)
            ok = True
        except RP2ValueError:
            ok = False
            tx = None
        S.expect(ok == spec["allowed"], "C03", "table-type", "%s in table %s was %s" % (spec["type"], spec["table"], "accepted" if ok else "rejected"))
        if ok:
            want_taxable = spec["table"] == "OUT" or spec["type"] in EARN_TYPES
            S.expect(tx.is_taxable() is want_taxable, "C03", "is-taxable", "%s:%s is_taxable=%s" % (spec["table"], spec["type"], tx.is_taxable()))
            S.expect(tx.is_earning() is (spec["table"] == "IN" and spec["type"] in EARN_TYPES), "C03", "is-earning")
            S.expect(tx.transaction_type.name == spec["type"], "C03", "type-changed")
        return "accepted" if ok else "rejected"
    # ---- histories
    slots = slots_of(spec["ctx"])
    for s in slots:
        if s["table"] == "INTRA":
            s["fee"] = "any"
    typ = spec["type"]
    subj = slot(spec["table"], "MOVE" if typ == "MOVE-self" else typ, fee="any" if spec["table"] != "IN" else "none")
    if typ == "MOVE-self":
        subj["ex2"], subj["ho2"] = subj["ex"], subj["ho"]  # transfer to the same account: rp2 accepts it (with a warning)
    if spec["type"] == "FEE":
        subj["fee"] = "pos"
    slots.insert(spec["pos"], subj)
    n = len(slots)
    h = Hist(S, slots, [2020])
    cfg = make_cfg("us", allow_negative=True)
    try:
        inp = h.build(cfg)
    except RP2ValueError as e:
        # the only legitimate refusal here: an empty IN table
        S.expect(not any(h.is_lot(i) for i in range(n)), "C03", "build-error", str(e)[:200])
        return "no-in"
    try:
        cd = run_tax(cfg, {"2020": spec["method"]}, inp)
    except RP2ValueError as e:
        S.expect("Total in-transaction crypto value" in str(e), "C03", "other-error", str(e)[:200])
        return "error"
    expected = {}
    for i, s in enumerate(slots):
        if h.is_earn(i) or h.is_out(i):
            expected[i] = True
        elif h.is_move(i):
            expected[i] = bool(h.f[i] > 0)
        else:
            expected[i] = False
    row2slot = {h.row(i): i for i in range(n)}
    seen = {}
    for tx in cd.taxable_event_set:
        i = row2slot[tx.row]
        S.expect(tx is h.txs[i], "C03", "foreign-event")
        seen[i] = seen.get(i, 0) + 1
    for i in range(n):
        S.expect(seen.get(i, 0) == (1 if expected[i] else 0), "C03", "taxable-event-set", "slot %d (%s:%s) appears %d times among taxable events, expected %d" % (i, slots[i]["table"], slots[i]["type"], seen.get(i, 0), 1 if expected[i] else 0))
    per = {}
    for g in cd.gain_loss_set:
        i = row2slot[g.taxable_event.row]
        S.expect(g.taxable_event is h.txs[i], "C03", "foreign-event")
        S.expect(expected[i], "C03", "untaxable-taxed", "slot %d (%s:%s) has a gain/loss fraction" % (i, slots[i]["table"], slots[i]["type"]))
        S.expect(g.taxable_event.transaction_type.name == slots[i]["type"], "C03", "type-changed", "fraction of slot %d reported as %s" % (i, g.taxable_event.transaction_type.name))
        per.setdefault(i, []).append(g)
    obs = []
    for i in range(n):
        gs = per.get(i, [])
        if not expected[i]:
            continue
        S.expect(len(gs) >= 1, "C03", "taxable-dropped", "slot %d (%s:%s) has no gain/loss fraction" % (i, slots[i]["table"], slots[i]["type"]))
        total = sum(S.ex(g.crypto_amount) for g in gs)
        if h.is_earn(i):
            S.expect(len(gs) == 1, "C03", "earn-split", "income slot %d reported %d times" % (i, len(gs)))
            g = gs[0]
            S.expect(g.acquired_lot is None, "C03", "earn-with-lot")
            S.expect(S.ex(g.crypto_amount) == S.ex_int(h.a[i], 11), "C03", "earn-amount")
            S.expect(S.ex(g.fiat_cost_basis) == 0, "C03", "earn-cost")
            S.expect(S.ex(g.taxable_event_fiat_amount_with_fee_fraction) == S.ex_int(h.a[i] * h.p[i], 15), "C03", "earn-proceeds")
        else:
            for g in gs:
                S.expect(g.acquired_lot is not None, "C03", "disposal-without-lot")
            S.expect(total == S.ex_int(h.need(i), 11), "C03", "disposed-amount", "slot %d (%s:%s): fractions do not sum to the taxable amount" % (i, slots[i]["table"], slots[i]["type"]))
        obs.append((i, len(gs), total))
    S.observe("taxed", obs)
    return "ok"
