"""C04 proceeds, cost basis and gain of every fraction are arithmetically exact.

Unit driven: the real InTransaction / OutTransaction / IntraTransaction constructors (with and without the optional
exchange-supplied fiat fields), compute_tax, and the GainLoss figure properties.
Symbolic: amounts (1e-11 .. 1e9), spot prices (1e-8 .. 1e7), crypto and fiat fees, every supplied fiat field.
Enumerated: which optional fields are supplied, lot / event kinds, method.  Instants are concrete (the figures do not
depend on them beyond the matching order, which C01 decides).
Oracle: exact rational expressions of the INPUT variables - proceeds = V(e) * c / D(e), cost = W(L) * c / in(L),
gain = proceeds - cost, sums of an event's fractions = V(e), sums of an exhausted lot's fractions = W(L) - compared with the
figures the real code computes on the exact-rational substrate (equality of rational functions, decided symbolically),
plus rounding: every substrate value carries an upper bound on the rounding error of the real `prec`-digit arithmetic
(prec read from the decimal context that the real rp2_decimal module configures, whose FloatOperation trap is checked too);
the bound of every reported proceeds / cost figure must stay below 1e-15 relative (symbolic after a cancellation).
"""
from symx.api import us_of

PROPS = ("C04",)
BUDGET = {"quick": 900, "thorough": 1500}
CHUNK = 60

LOTS = {
    "plain": {},
    "fee": {"ff": 1},
    "nf": {"nf": 1},
    "wf": {"wf": 1},
    "all": {"ff": 1, "nf": 1, "wf": 1},
    "earn": {"type": "INTEREST"},
}
EVENTS = {
    "sell": {},
    "sell+fee": {"fee": 1},
    "sell+fo": {"fo": 1},
    "sell+fee+sff": {"fee": 1, "sff": 1},
    "sell+all": {"fee": 1, "fo": 1, "sff": 1},
    "gift+fee": {"type": "GIFT", "fee": 1},
    "feeonly": {"type": "FEE", "fee": 1},
    "feeonly+sff": {"type": "FEE", "fee": 1, "sff": 1},
    "move": {"table": "INTRA"},
}


def jobs(tier):
    js = []
    for ln in LOTS:
        for en in EVENTS:
            if ln == "earn" and en not in ("sell+fee", "move", "feeonly+sff"):
                continue
            js.append({"lots": [ln], "events": [en], "method": "fifo", "sell_all": False})
    for en in ("sell+fee", "feeonly+sff", "move", "sell+all"):
        for m in ("fifo", "hifo"):
            js.append({"lots": ["plain", "all"], "events": [en], "method": m, "sell_all": False})
    js.append({"lots": ["fee"], "events": ["sell+fee", "move"], "method": "fifo", "sell_all": False})
    js.append({"lots": ["all"], "events": ["sell+fee"], "method": "fifo", "sell_all": True})
    js.append({"lots": ["wf", "fee"], "events": ["sell+all"], "method": "lifo", "sell_all": True})
    for m in ("fifo", "lifo", "hifo", "lofo") if tier == "thorough" else ("lifo", "lofo"):
        js.append({"lots": ["nf", "wf"], "events": ["sell+fee", "feeonly+sff"], "method": m, "sell_all": True})
        js.append({"lots": ["earn", "fee"], "events": ["gift+fee", "sell+fo"], "method": m, "sell_all": False})
    if tier == "thorough":
        for m in ("fifo", "lifo", "hifo", "lofo"):
            js.append({"lots": ["plain", "all", "fee"], "events": ["sell+all", "move"], "method": m, "sell_all": False})
            js.append({"lots": ["fee", "earn", "all"], "events": ["sell+fee+sff", "feeonly"], "method": m, "sell_all": True})
    return js


def describe(spec):
    return "lots=%s events=%s %s%s" % ("/".join(spec["lots"]), "/".join(spec["events"]), spec["method"], " +sell-all" if spec["sell_all"] else "")


def weight(spec):
    return (len(spec["lots"]) * len(spec["events"])) * 10 + (5 if spec["sell_all"] else 0)


def bounds(tier):
    return {
        "history": "1-2 lots x 1-2 disposals (up to 3 fractions per event)" if tier == "quick" else "1-3 lots x 1-2 disposals (up to 4 fractions)",
        "amounts": "k*1e-11 in [1e-11, 1e9]", "prices": "k*1e-8 in [1e-8, 1e7]", "fiat fields": "k*1e-4 in [1e-4, 1e12]",
        "optional fields": "acquisitions: fiat fee, fiat_in_no_fee, fiat_in_with_fee; disposals: crypto fee, fiat_out_no_fee, fiat_fee; fee-only and transfer-fee events; income lots",
        "outside": ["a float smuggled in through str() with an error below the tolerance", "more fractions per event", "exchange-supplied crypto_out_with_fee (rp2 matches on it but reports amount + fee)"],
    }


def assumptions():
    return [
        "the figures are compared as exact rational functions (no rounding): the real decimal module rounds every operation to `prec` significant digits, accounted for by the side condition operations x 10^(1-prec) <= 1e-15 (prec is the value the real rp2_decimal.py sets on the context)",
        "gain is compared with proceeds - cost (an absolute statement: a relative bound on a difference would over-demand under cancellation)",
        "concrete, strictly increasing instants",
    ]


class _V:
    pass


def run(S, spec):
    from rp2.in_transaction import InTransaction  # pylint: disable=import-outside-toplevel
    from rp2.input_data import InputData  # pylint: disable=import-outside-toplevel
    from rp2.intra_transaction import IntraTransaction  # pylint: disable=import-outside-toplevel
    from rp2.out_transaction import OutTransaction  # pylint: disable=import-outside-toplevel
    from rp2.rp2_decimal import ZERO  # pylint: disable=import-outside-toplevel
    from rp2.rp2_error import RP2ValueError  # pylint: disable=import-outside-toplevel
    from rp2.transaction_set import TransactionSet  # pylint: disable=import-outside-toplevel

    from .common import make_cfg, run_tax  # pylint: disable=import-outside-toplevel

    S.set_years([2020])
    S.track_rounding(True)
    try:
        return _run(S, spec, InTransaction, InputData, IntraTransaction, OutTransaction, ZERO, RP2ValueError, TransactionSet, make_cfg, run_tax)
    finally:
        S.track_rounding(False)


def _run(S, spec, InTransaction, InputData, IntraTransaction, OutTransaction, ZERO, RP2ValueError, TransactionSet, make_cfg, run_tax):
    cfg = make_cfg("us", allow_negative=True)
    A_MAX, P_MAX, F_MAX = 10**20, 10**15, 10**16
    lots, events = [], []
    ins, outs, intras = TransactionSet(cfg, "IN", "B1"), TransactionSet(cfg, "OUT", "B1"), TransactionSet(cfg, "INTRA", "B1")
    row = 10
    for i, ln in enumerate(spec["lots"]):
        pat = LOTS[ln]
        v = _V()
        v.row, v.pat = row, pat
        v.a = S.int("a%d" % i, 1, A_MAX)
        v.p = S.int("p%d" % i, 1, P_MAX)
        v.ff = S.int("ff%d" % i, 1, F_MAX) if pat.get("ff") else None
        v.nf = S.int("nf%d" % i, 1, F_MAX) if pat.get("nf") else None
        v.wf = S.int("wf%d" % i, 1, F_MAX) if pat.get("wf") else None
        ts = S.ts(us_of(2020, 1, 1 + i, 10))
        v.tx = InTransaction(cfg, ts, "B1", "X1", "H1", pat.get("type", "BUY"), S.dec(v.p, 8), S.dec(v.a, 11), fiat_fee=S.dec(v.ff, 4) if v.ff is not None else None, fiat_in_no_fee=S.dec(v.nf, 4) if v.nf is not None else None, fiat_in_with_fee=S.dec(v.wf, 4) if v.wf is not None else None, row=row)
        ins.add_entry(v.tx)
        # cost of the lot, from the inputs
        no_fee = S.ex_int(v.nf, 4) if v.nf is not None else S.ex_int(v.a * v.p, 19)
        v.W = S.ex_int(v.wf, 4) if v.wf is not None else no_fee + (S.ex_int(v.ff, 4) if v.ff is not None else 0)
        lots.append(v)
        row += 1
    n_ev = len(spec["events"]) + (1 if spec["sell_all"] else 0)
    for j in range(n_ev):
        last_all = spec["sell_all"] and j == n_ev - 1
        pat = {} if last_all else EVENTS[spec["events"][j]]
        e = _V()
        e.row, e.pat = row, pat
        e.p = S.int("q%d" % j, 1, P_MAX)
        e.fee = S.int("f%d" % j, 1, A_MAX) if pat.get("fee") or pat.get("table") == "INTRA" else 0
        e.a = S.int("b%d" % j, 1, A_MAX) if pat.get("type") != "FEE" else 0
        e.fo = S.int("fo%d" % j, 1, F_MAX) if pat.get("fo") else None
        e.sff = S.int("sf%d" % j, 0, F_MAX) if pat.get("sff") else None
        if last_all:
            total_in = sum(v.a for v in lots)
            total_out = sum((x.fee if x.pat.get("table") == "INTRA" else x.a + x.fee) for x in events)
            S.assume_cmp(e.a, "==", total_in - total_out)
        ts = S.ts(us_of(2020, 6, 1 + j, 10))
        price = S.dec(e.p, 8)
        if pat.get("table") == "INTRA":
            e.tx = IntraTransaction(cfg, ts, "B1", "X1", "H1", "X2", "H1", price, S.dec(e.a + e.fee, 11), S.dec(e.a, 11), row=row)
            intras.add_entry(e.tx)
            e.V, e.D = S.ex_int(e.fee * e.p, 19), S.ex_int(e.fee, 11)
        else:
            typ = pat.get("type", "SELL")
            e.tx = OutTransaction(cfg, ts, "B1", "X1", "H1", typ, price, S.dec(e.a, 11) if typ != "FEE" else ZERO, S.dec(e.fee, 11) if not (isinstance(e.fee, int) and e.fee == 0) else ZERO, fiat_out_no_fee=S.dec(e.fo, 4) if e.fo is not None else None, fiat_fee=S.dec(e.sff, 4) if e.sff is not None else None, row=row)
            outs.add_entry(e.tx)
            if typ == "FEE":
                e.V = S.ex_int(e.sff, 4) if e.sff is not None else S.ex_int(e.fee * e.p, 19)
                e.D = S.ex_int(e.fee, 11)
            else:
                e.V = S.ex_int(e.fo, 4) if e.fo is not None else S.ex_int(e.a * e.p, 19)
                e.D = S.ex_int(e.a + e.fee, 11)
        events.append(e)
        row += 1
    inp = InputData("B1", ins, outs, intras, cfg.from_date, cfg.to_date)
    try:
        cd = run_tax(cfg, {"2020": spec["method"]}, inp)
    except RP2ValueError as err:
        if spec["sell_all"]:
            S.fail("C04", "sell-all-rejected", str(err)[:160])
        return "error"
    by_row = {x.row: x for x in lots + events}
    per_event, per_lot = {}, {}
    prec = _context_prec()
    obs = []
    for g in cd.gain_loss_set:
        ev = by_row[g.taxable_event.row]
        c = S.ex(g.crypto_amount)
        proceeds, cost, gain = S.ex(g.taxable_event_fiat_amount_with_fee_fraction), S.ex(g.fiat_cost_basis), S.ex(g.fiat_gain)
        what = "fraction %s->%s" % (g.taxable_event.row, g.acquired_lot.row if g.acquired_lot is not None else None)
        if g.acquired_lot is None:
            # income: reported once for its full amount at its fiat value, zero cost
            S.expect(S.eq(proceeds, ev.W) and S.eq(c, S.ex_int(ev.a, 11)), "C04", "income-proceeds", what)
            S.expect(S.eq(cost, 0), "C04", "income-cost", what)
            want_cost = 0
        else:
            lot = by_row[g.acquired_lot.row]
            S.expect(S.eq(proceeds, ev.V * c / ev.D), "C04", "proceeds", "%s: proceeds differ from the event's taxable fiat value pro-rated by amount" % what)
            want_cost = lot.W * c / S.ex_int(lot.a, 11)
            S.expect(S.eq(cost, want_cost), "C04", "cost-basis", "%s: cost basis differs from the lot's cost (with fee) pro-rated by amount" % what)
            per_lot.setdefault(lot.row, [0, 0])
            per_lot[lot.row][0] = per_lot[lot.row][0] + c
            per_lot[lot.row][1] = per_lot[lot.row][1] + cost
            per_event.setdefault(ev.row, [0, 0])
            per_event[ev.row][0] = per_event[ev.row][0] + c
            per_event[ev.row][1] = per_event[ev.row][1] + proceeds
        S.expect(S.eq(gain, proceeds - cost), "C04", "gain", "%s: gain is not proceeds minus cost basis" % what)
        # rounding: the real 31-digit arithmetic must stay within 1e-15 (relative; for the gain relative to its two operands)
        want_p = ev.W if g.acquired_lot is None else ev.V * c / ev.D
        S.rounding_within(g.taxable_event_fiat_amount_with_fee_fraction, want_p, "C04", "rounding", "%s: proceeds can be off by more than 1e-15 relative" % what, exact=want_p)
        if g.acquired_lot is not None:
            S.rounding_within(g.fiat_cost_basis, want_cost, "C04", "rounding", "%s: cost basis can be off by more than 1e-15 relative" % what, exact=want_cost)
        # (the gain is asserted above to be exactly proceeds - cost: one more rounding of a difference whose two operands are each
        # within 1e-15, i.e. within 1e-15 of |proceeds| + |cost|; a relative bound on the difference itself would over-demand)
        if S.mode == "con":
            S.rounding_within(g.fiat_gain, want_p + want_cost, "C04", "rounding", "%s: gain is off by more than 1e-15 of proceeds + cost" % what, exact=want_p - want_cost)
        # rounding side condition of the exact model
        for name, val in (("proceeds", g.taxable_event_fiat_amount_with_fee_fraction), ("cost", g.fiat_cost_basis), ("gain", g.fiat_gain)):
            ops = getattr(val, "nr", 0)
            S.expect(ops * 10 ** (16 - prec) <= 1, "C04", "precision", "%s of %s: %d operations at %d significant digits cannot guarantee 1e-15" % (name, what, ops, prec))
        obs.append((g.taxable_event.row, g.acquired_lot.row if g.acquired_lot is not None else None, c, proceeds, cost))
    for ev in events:
        if ev.row in per_event:
            cs, ps = per_event[ev.row]
            S.expect(S.eq(cs, ev.D), "C04", "event-amount", "fractions of event %d do not add up to its outgoing amount" % ev.row)
            S.expect(S.eq(ps, ev.V), "C04", "event-whole", "proceeds of the fractions of event %d do not add back to its taxable fiat value" % ev.row)
    for lot in lots:
        if lot.row in per_lot:
            cs, ks = per_lot[lot.row]
            if spec["sell_all"]:
                S.expect(S.eq(cs, S.ex_int(lot.a, 11)), "C04", "lot-exhausted", "lot %d is not exhausted by the final disposal of everything" % lot.row)
                S.expect(S.eq(ks, lot.W), "C04", "lot-whole", "cost bases of the fractions of the exhausted lot %d do not add back to its full cost" % lot.row)
    S.expect(_float_trap(), "C04", "float-trap", "the decimal context no longer traps float operands")
    S.observe("fractions", obs)
    S.note("fractions", len(obs))
    return "ok"


def _context_prec():
    import rp2.rp2_decimal as m  # pylint: disable=import-outside-toplevel

    return m.getcontext().prec


def _float_trap():
    import rp2.rp2_decimal as m  # pylint: disable=import-outside-toplevel

    return bool(m.getcontext().traps[m.FloatOperation])
