"""C14 (tax report lists every fraction once, on the sheet of its transaction type) and C16 (every supported option
combination runs to completion), decided at the _fill_cell boundary of the real generators.

Unit driven: compute_tax for two assets + rp2.plugin.report.{us.tax_report_us, ie.tax_report_ie}.Generator().generate
(C14); every generator the country configures, called as rp2_main._find_and_run_report_generators calls it (C16).
Symbolic: amounts, prices, fees, instants, from/to dates.  Enumerated: subject transaction type, country, method,
language (shipped templates and the country's default), filter kind.
"""
from datetime import date

from . import reportlib
from .common import EARN_TYPES, Hist, country_of, make_cfg, method_tree, slot

PROPS = ("C14", "C16")
BUDGET = {"quick": 1500, "thorough": 1500}
CHUNK = 40

US_MAP = {
    "SELL": "Capital Gains", "GIFT": "Gifts", "DONATE": "Donations", "FEE": "Investment Expenses", "LOST": "Investment Expenses", "MOVE": "Investment Expenses",
    "AIRDROP": "Airdrops", "HARDFORK": "Hard Forks", "INCOME": "Income", "INTEREST": "Interest", "MINING": "Mining", "STAKING": "Staking", "WAGES": "Wages",
}  # written from the text of property C14
SUBJECTS = [("OUT", t) for t in ("SELL", "GIFT", "DONATE", "FEE", "LOST", "STAKING")] + [("IN", t) for t in EARN_TYPES] + [("INTRA", "MOVE")]
GEN = {"us": "us.tax_report_us", "ie": "ie.tax_report_ie"}
LANGS = {"us": ["en"], "generic": ["en"], "es": ["es"], "ie": ["en_IE"], "jp": ["en", "kl", "ja"]}
METHODS = {"us": ["fifo", "lifo", "hifo", "lofo"], "generic": ["fifo", "lifo", "hifo", "lofo"], "es": ["fifo"], "ie": ["fifo"], "jp": ["fifo"]}


def jobs(tier):
    js = []
    for country in ("us", "ie"):
        for table, typ in SUBJECTS:
            js.append({"for": "C14", "country": country, "subject": [table, typ], "filter": "none", "method": "fifo", "b2": "same"})
        js.append({"for": "C14", "country": country, "subject": ["OUT", "SELL"], "filter": "from-to", "method": "fifo", "b2": "buy" if tier == "quick" else "same"})
        js.append({"for": "C14", "country": country, "subject": ["IN", "INTEREST"], "filter": "to", "method": "fifo", "b2": "buy"})
        # an asset that is only bought and held comes first: the assets after it must still be reported
        js.append({"for": "C14", "country": country, "subject": ["OUT", "SELL"], "filter": "none", "method": "fifo", "b2": "sell", "b1": "hold"})
        # one symbolic UTC offset for all timestamps: the window and the printed dates are those of the local calendar date
        js.append({"for": "C14", "country": country, "subject": ["OUT", "SELL"], "filter": "from-to", "method": "fifo", "b2": "buy", "off": "shared"})
    js.append({"for": "C14", "country": "us", "subject": ["OUT", "SELL"], "filter": "none", "method": "fifo", "b2": "buy", "then_income": True, "years": [2020, 2021]})
    # one sale spanning two lots in a two-year window: a long-term and a short-term fraction of the same event
    js.append({"for": "C14", "country": "us", "subject": ["OUT", "SELL"], "filter": "none", "method": "fifo", "b2": "buy", "two_lots": True, "years": [2020, 2021]})
    # different transaction types that share the Investment Expenses sheet, in different assets
    for country in ("us", "ie"):
        js.append({"for": "C14", "country": country, "subject": ["OUT", "FEE"], "filter": "none", "method": "fifo", "b2": "other:LOST"})
        js.append({"for": "C14", "country": country, "subject": ["INTRA", "MOVE"], "filter": "none", "method": "fifo", "b2": "other:FEE"})
    js.append({"for": "C14", "country": "us", "subject": ["OUT", "GIFT"], "filter": "none", "method": "hifo", "b2": "sell"})
    js.append({"for": "C14", "country": "us", "subject": ["INTRA", "MOVE"], "filter": "none", "method": "lifo", "b2": "sell"})
    if tier == "thorough":
        for table, typ in SUBJECTS:
            js.append({"for": "C14", "country": "us", "subject": [table, typ], "filter": "none", "method": "lifo", "b2": "sell", "b1sell": True})
    # C16: country x language x filter kind (fifo), and country x every other accepted method, all configured generators
    for country in ("us", "generic", "es", "ie", "jp"):
        for lang in LANGS[country]:
            for filt in ("none", "from", "to", "from-to"):
                if tier == "quick" and country != "us" and filt in ("from", "to"):
                    continue
                js.append({"for": "C16", "country": country, "lang": lang, "method": "fifo", "filter": filt, "shape": "BS+B"})
                if tier == "thorough" or (country == "us" and filt in ("none", "from-to")):
                    js.append({"for": "C16", "country": country, "lang": lang, "method": "fifo", "filter": filt, "shape": "BIS+I"})
                if country == "us" and (tier == "thorough" or filt == "from"):
                    js.append({"for": "C16", "country": country, "lang": lang, "method": "fifo", "filter": filt, "shape": "BS+B", "symbolic_instants": True})
        if country in ("us", "generic"):
            # the method given by an [accounting_methods] section with a single year instead of -m
            js.append({"for": "C16", "country": country, "lang": LANGS[country][0], "method": "lifo", "filter": "none", "shape": "BS+B", "config_schedule": 2019})
        for method in METHODS[country]:
            if method != "fifo":
                for filt in ("none",) if tier == "quick" else ("none", "from", "to", "from-to"):
                    js.append({"for": "C16", "country": country, "lang": LANGS[country][0], "method": method, "filter": filt, "shape": "BS+B"})
                if (country == "us" and method == "hifo") or tier == "thorough":
                    js.append({"for": "C16", "country": country, "lang": LANGS[country][0], "method": method, "filter": "none", "shape": "BIS+I"})
    return js


def select(prop, spec):
    return spec["for"] == prop


def describe(spec):
    if spec["for"] == "C14":
        return "C14 %s subject=%s:%s filter=%s %s B2=%s%s" % (spec["country"], spec["subject"][0], spec["subject"][1], spec["filter"], spec["method"], spec["b2"], " +sell" if spec.get("b1sell") else "") + (" B1=hold-only" if spec.get("b1") == "hold" else "") + (" offset=shared" if spec.get("off") else "") + (" then-income 2020-2021" if spec.get("then_income") else "") + (" two-lots 2020-2021" if spec.get("two_lots") else "")
    return "C16 %s lang=%s %s filter=%s %s%s" % (spec["country"], spec["lang"], spec["method"], spec["filter"], spec["shape"], " symbolic-instants" if spec.get("symbolic_instants") else "") + (" [accounting_methods] %d" % spec["config_schedule"] if spec.get("config_schedule") else "")


def weight(spec):
    return (30 if spec["filter"] == "from-to" else 20 if spec["filter"] != "none" else 10) + (5 if spec["for"] == "C14" else 0)


def bounds(tier):
    return {
        "C14": "asset B1 = BUY, <subject> (thorough: + SELL) with the subject ranging over all 6 out types, 7 income types and a transfer with fee; asset B2 = BUY plus the same subject (both assets write on one sheet) or a SELL; US and IE generators; no filter, symbolic to_date, symbolic from+to",
        "C16": "countries us/generic/es/ie/jp x every method the country accepts x every language with shipped templates plus the country's default language x {no filter, from, to, from+to}; two assets (B1 = BUY,SELL or BUY,INTEREST,SELL; B2 = BUY only or INTEREST only); every generator the country configures",
        "dates": "from/to anywhere from 2019-12-30 to the day after the window (on/before/after/between transaction dates, mid-year, empty windows); C16 instants are concrete and span 2020-2021 except in the jobs marked symbolic-instants",
        "amounts": "k*1e-11 in [1e-11, 1e9]", "prices": "k*1e-4 in [1e-4, 1e6]",
        "outside": ["argparse, exit status and the files on disk (process-level, no symbolic input)", "the .ods bytes", "longer histories"],
    }


def assumptions():
    return [
        "observation point is the _fill_cell call and the sheet list of the document object at the end of generate()",
        "C16: the JP tax report documents that it refuses from+to together (RP2RuntimeError 'To and From Dates can not be specified'): not counted",
        "generators are called one after the other in a fresh Generator object each, class-level dictionaries emptied (a fresh process)",
    ]


def _dates(S, spec, years):
    lo = date(years[0], 1, 1).toordinal() - 2
    hi = date(years[-1], 12, 31).toordinal() + 1
    from_date = to_date = None
    from_ord = None
    if spec["filter"] in ("from", "from-to"):
        from_ord = S.int("from", lo, hi)
        from_date = S.date(from_ord)
    if spec["filter"] in ("to", "from-to"):
        to_ord = S.int("to", lo, hi)
        if from_ord is not None:
            S.assume_cmp(from_ord, "<=", to_ord)
        to_date = S.date(to_ord)
    return from_date, to_date


def _compute(S, cfg, method, hists, year="2020"):
    from rp2.accounting_engine import AccountingEngine  # pylint: disable=import-outside-toplevel
    from rp2.rp2_error import RP2ValueError  # pylint: disable=import-outside-toplevel
    from rp2.tax_engine import compute_tax  # pylint: disable=import-outside-toplevel

    engine = AccountingEngine(method_tree({year: method}))
    cds = {}
    for asset, h in hists.items():
        inp = h.build(cfg, asset)
        try:
            cds[asset] = compute_tax(cfg, engine, inp)
        except RP2ValueError:
            return None
    return cds


def _reset(generator):
    import importlib  # pylint: disable=import-outside-toplevel

    m = importlib.import_module("rp2.plugin.report." + generator)
    for _k, v in list(vars(m.Generator).items()):
        if isinstance(v, dict):
            v.clear()


def run(S, spec):
    S.set_years([2020])
    if spec["for"] == "C14":
        return run_c14(S, spec)
    return run_c16(S, spec)


def run_c14(S, spec):
    country = spec["country"]
    table, typ = spec["subject"]
    subj = slot(table, typ, asset="B1", fee="pos" if typ in ("FEE", "MOVE") else "none")
    s1 = [slot("IN", "BUY", asset="B1"), subj] + ([slot("OUT", "SELL", asset="B1")] if spec.get("b1sell") else [])
    if spec.get("b1") == "hold":
        s1 = s1[:1]
    if spec.get("then_income"):
        s1.append(slot("IN", "INTEREST", asset="B1"))  # an income row right after a (possibly long-term) disposal
    if spec.get("two_lots"):
        s1.insert(1, slot("IN", "BUY", asset="B1"))
    s2 = [slot("IN", "BUY", asset="B2")]
    if spec["b2"] == "same":
        s2.append(dict(subj, asset="B2"))  # both assets write on the subject's sheet
    elif spec["b2"] == "sell":
        s2.append(slot("OUT", "SELL", asset="B2"))
    elif spec["b2"].startswith("other:"):
        s2.append(slot("OUT", spec["b2"][6:], asset="B2", fee="pos" if spec["b2"][6:] == "FEE" else "none"))
    for i, s in enumerate(s1):
        s["row"] = 10 + i
    for i, s in enumerate(s2):
        s["row"] = 10 + i
    off = S.int("off", -720, 840) if spec.get("off") else None
    yrs = spec.get("years", [2020])
    S.set_years(yrs)
    h1 = Hist(S, s1, yrs, prefix="x", shared_off=off, shared_sym=off is not None)
    h2 = Hist(S, s2, yrs, prefix="y", shared_off=off, shared_sym=off is not None)
    from_date, to_date = _dates(S, spec, yrs)
    cfg = make_cfg(country, from_date=from_date, to_date=to_date, allow_negative=True)
    cds = _compute(S, cfg, spec["method"], {"B1": h1, "B2": h2})
    if cds is None:
        return "error"
    gen = GEN[country]
    _reset(gen)
    rec, err = reportlib.generate(S, gen, cfg.country, cds, {1970: spec["method"]}, cfg.from_date, cfg.to_date, lang=reportlib.LANG[country])
    if err is not None:
        S.fail("C14", "generator-exception", "%s: %s" % (type(err).__name__, str(err)[:200]), tag=type(err).__name__)
    expected = {}
    for asset, hh in (("B1", h1), ("B2", h2)):
        # the fractions of the window, from the input side: every taxable slot whose own local date lies in [from, to]
        in_window = 0
        for i, s in enumerate(hh.slots):
            taxable = s["table"] == "OUT" or (s["table"] == "IN" and s["type"] in EARN_TYPES) or (s["table"] == "INTRA" and hh.f[i] > 0)
            d = hh.txs[i].timestamp.date()
            if taxable and not (from_date is not None and d < from_date) and not (to_date is not None and d > to_date):
                in_window += 1
        got_events = len({g.taxable_event.row for g in cds[asset].gain_loss_set})
        S.expect(got_events == in_window, "C14", "window", "%s: %d taxable events in the computed window, %d by their own dates" % (asset, got_events, in_window))
        for g in cds[asset].gain_loss_set:
            expected.setdefault(US_MAP[g.taxable_event.transaction_type.name], {}).setdefault(asset, []).append(g)
    for sheet, cells in rec.sheets.items():
        if sheet == "Legend":
            continue
        S.expect(sheet in expected, "C14", "row-on-wrong-sheet", "rows were written on sheet %r although no fraction belongs there" % sheet)
    for sheet, per_asset in expected.items():
        rows = rec.rows(sheet)
        want_n = sum(len(v) for v in per_asset.values())
        S.expect(len(rows) == want_n, "C14", "row-count", "sheet %r: %d rows written for %d fractions (lost or overwritten rows)" % (sheet, len(rows), want_n))
        S.expect(not rec.multi.get(sheet), "C14", "overwritten", "sheet %r: cells written twice %s" % (sheet, rec.multi.get(sheet)))
        by_asset = {}
        for r in sorted(rows):
            by_asset.setdefault(rows[r].get(1), []).append(r)
        S.expect(sorted(by_asset) == sorted(per_asset), "C14", "asset-rows", "sheet %r holds rows of %s, expected %s" % (sheet, sorted(map(str, by_asset)), sorted(per_asset)))
        for asset, gl in per_asset.items():
            rs = by_asset[asset]
            S.expect(len(rs) == len(gl), "C14", "row-count", "sheet %r: %d rows for %d fractions of %s" % (sheet, len(rs), len(gl), asset))
            gls = cds[asset].gain_loss_set
            for r, g in zip(rs, gl):
                check_row(S, rows[r], g, gls, asset, "%s row %d" % (sheet, r + 1))
    names = [n for n in reportlib.final_sheets() if n != "Legend"]
    S.expect(sorted(names) == sorted(expected), "C14", "sheet-set", "sheets in the document %s, sheets with rows %s" % (sorted(names), sorted(expected)))
    S.observe("sheets", {k: {a: len(v) for a, v in per.items()} for k, per in expected.items()})
    S.note("rows", sum(len(v) for per in expected.values() for v in per.values()))
    return "ok"


def _date_cell(S, cell, ts, what):
    parts = getattr(cell, "parts", None)
    if parts is not None:
        S.expect(len(parts) == 1 and type(parts[0]).__name__ == "TsFmt", "C14", "date-cell", what)
        S.expect(parts[0].dt == ts and parts[0].dt.utcoffset() == ts.utcoffset(), "C14", "date-cell", "%s: date of another instant" % what)
        S.expect(parts[0].fmt in ("%m/%d/%Y", "%Y/%m/%d", "%Y-%m-%d", "%d/%m/%Y"), "C14", "date-cell", "%s: format %r" % (what, parts[0].fmt))
    elif hasattr(ts, "us"):
        # symbolic run: a date cell must be the rendering of that symbolic timestamp, never plain text
        S.fail("C14", "date-cell", "%s: %r" % (what, cell))
    else:
        S.expect(isinstance(cell, str) and cell in (ts.strftime("%m/%d/%Y"), ts.strftime("%Y/%m/%d"), ts.strftime("%Y-%m-%d"), ts.strftime("%d/%m/%Y")), "C14", "date-cell", "%s: %r" % (what, cell))


def check_row(S, c, g, gls, asset, what):
    ev, lot = g.taxable_event, g.acquired_lot

    def num(col, want, name):
        v = c.get(col)
        if isinstance(v, str) or v is None:
            S.fail("C14", "not-a-number", "%s %s holds %r" % (what, name, v))
        S.expect(S.eq(S.ex(v), S.ex(want)), "C14", "value", "%s %s" % (what, name))

    num(0, g.crypto_amount, "amount")
    _date_cell(S, c.get(3), ev.timestamp, what + " date sold")
    num(4, g.taxable_event_fiat_amount_with_fee_fraction, "proceeds")
    num(8, g.fiat_gain, "gain")
    table = {"InTransaction": "IN", "OutTransaction": "OUT", "IntraTransaction": "INTRA"}[type(ev).__name__]
    S.expect(c.get(9) == "%s / %s" % (table, ev.transaction_type.name), "C14", "type-cell", "%s: %r" % (what, c.get(9)))
    S.expect(c.get(14) == ("LONG" if g.is_long_term_capital_gains() else "SHORT"), "C14", "long-short", what)
    S.expect(c.get(15) == ev.timestamp, "C14", "timestamp", what)
    note = c.get(12)
    k, n, x, y, a, rounded = reportlib.parse_note(S, list(getattr(note, "parts", [note])))
    S.expect((k, n) == (gls.get_taxable_event_fraction(g) + 1, gls.get_taxable_event_number_of_fractions(ev)) and a == asset, "C14", "fraction-label", what)
    if lot is None:
        S.expect(c.get(2) == "" and c.get(5) == "", "C14", "earn-with-lot-cells", what)
    else:
        _date_cell(S, c.get(2), lot.timestamp, what + " date acquired")
        num(5, g.fiat_cost_basis, "cost basis")
        note = c.get(10)
        k, n, x, y, a, rounded = reportlib.parse_note(S, list(getattr(note, "parts", [note])))
        S.expect((k, n) == (gls.get_acquired_lot_fraction(g) + 1, gls.get_acquired_lot_number_of_fractions(lot)), "C14", "fraction-label", what + " (lot)")
    del x, y, rounded


# ---------------------------------------------------------------------------------------------------------------
def run_c16(S, spec):
    from rp2.rp2_error import RP2RuntimeError  # pylint: disable=import-outside-toplevel

    country = spec["country"]
    c1, c2 = spec["shape"].split("+")
    kinds = {"B": ("IN", "BUY"), "S": ("OUT", "SELL"), "I": ("IN", "INTEREST")}
    s1 = [slot(*kinds[ch], asset="B1") for ch in c1]
    s2 = [slot(*kinds[ch], asset="B2") for ch in c2]
    for i, s in enumerate(s1):
        s["row"] = 10 + i
    for i, s in enumerate(s2):
        s["row"] = 10 + i
    # the JP tax report renders month and day of every transaction: concrete instants there (amounts and filter dates stay symbolic)
    from symx.api import us_of  # pylint: disable=import-outside-toplevel

    # Instants are concrete in most C16 jobs (the JP tax report renders month and day; and totality depends on where the
    # symbolic filter dates fall relative to the transactions and year ends, which the solver still decides); they span two
    # years so that windows can start or end mid-year, cover a whole year or miss every event of a year.
    fixed = not spec.get("symbolic_instants")
    years = [2020, 2021] if fixed else [2020]
    S.set_years(years)
    h1 = Hist(S, s1, years, prefix="x", fixed_t=[us_of(2020, 3, 10, 12), us_of(2020, 9, 30, 23), us_of(2021, 6, 1, 0), us_of(2021, 6, 2, 0)][: len(s1)] if fixed else None)
    h2 = Hist(S, s2, years, prefix="y", fixed_t=[us_of(2020, 12, 31, 23, 59, 59)][: len(s2)] if fixed else None)
    from_date, to_date = _dates(S, spec, years)
    cfg = make_cfg(country, from_date=from_date, to_date=to_date, allow_negative=True)
    cds = _compute(S, cfg, spec["method"], {"B1": h1, "B2": h2}, year=str(spec.get("config_schedule") or 2020))
    if cds is None:
        # rejected by the tax engine: legitimate only when some disposal is not covered by the lots acquired up to it
        for hh in (h1, h2):
            n = len(hh.slots)
            disp = [i for i in range(n) if hh.slots[i]["table"] != "IN"]
            lots = [i for i in range(n) if hh.slots[i]["table"] == "IN"]
            covered = all(not sum(hh.need(e) for e in disp if hh.t[e] <= hh.t[d]) > sum(hh.a[l] for l in lots if hh.t[l] <= hh.t[d]) for d in disp)
            if not covered:
                return "error"
        S.fail("C16", "valid-input-rejected", "every disposal is covered by earlier lots, yet the tax computation refused the input")
    ran = []
    for gen in sorted(cfg.country.get_report_generators()):
        _reset(gen)
        names = {spec["config_schedule"]: spec["method"]} if spec.get("config_schedule") else {1970: spec["method"]}
        rec, err = reportlib.generate(S, gen, cfg.country, cds, names, cfg.from_date, cfg.to_date, lang=spec["lang"])
        if err is not None:
            if gen == "jp.tax_report_jp" and isinstance(err, RP2RuntimeError) and "To and From Dates can not be specified" in str(err) and from_date is not None and to_date is not None:
                ran.append(gen + ":refused")
                continue
            S.fail("C16", "generator-exception", "%s (language %s): %s: %s" % (gen, spec["lang"], type(err).__name__, str(err)[:200]), tag="%s/%s" % (gen, type(err).__name__), generator=gen, language=spec["lang"], country=country)
        S.expect(len(rec.sheets) >= 1, "C16", "nothing-written", "%s wrote no cell" % gen)
        ran.append(gen)
    S.observe("generators", ran)
    S.note("generators-run", len(ran))
    return "ok"
