"""C06 yearly gain/loss summary = sum of its detail fractions.

Unit driven: real compute_tax -> ComputedData (_create_yearly_gain_loss_list, _filter_yearly_gain_loss_by_year).
Symbolic: instants in a 3-year window (year of each event decided by forking), amounts, prices, to_date, from_date.
Oracle: sums over the fractions of the UNFILTERED run (second compute_tax on the same path), grouped by the event's
own local year, transaction type and long/short flag.
"""
from datetime import date

from .common import Hist, make_cfg, run_tax, slots_of

PROPS = ("C06",)
BUDGET = {"quick": 900, "thorough": 1500}


def jobs(tier):
    js = []
    codes = ["BSS", "BBS", "BIS", "BSM", "BSg", "BIk", "BkT"] if tier == "quick" else ["BSS", "BBS", "BIS", "BSM", "BSg", "BBSS", "BISS", "BSIS", "BBSM", "BSFd", "BIk", "BkT", "BTk"]
    for code in codes:
        for m in ("fifo", "lifo") if tier == "quick" else ("fifo", "lifo", "hifo"):
            js.append({"code": code, "method": m, "country": "us", "years": [2020, 2021, 2022], "filter": "to"})
    for code in ["BBS", "BIS"] if tier == "quick" else ["BBS", "BIS", "BSS", "BBSS"]:
        js.append({"code": code, "method": "fifo", "country": "us", "years": [2020, 2021, 2022], "filter": "from-to"})
        # short holding period through the generic plugin: long and short fractions of one sale inside one year
        js.append({"code": code, "method": "lifo", "country": "generic", "period": 1, "years": [2020, 2021], "filter": "to"})
    # one symbolic UTC offset shared by all timestamps: the year and the to-date cut are those of the LOCAL date
    for code in ["BSS", "BIS"] if tier == "quick" else ["BSS", "BIS", "BBS", "BSM"]:
        js.append({"code": code, "method": "fifo", "country": "us", "years": [2020, 2021], "filter": "to", "off": "shared"})
    js.append({"code": "BS", "method": "fifo", "country": "us", "years": [2020, 2021], "filter": "from-to", "off": "shared"})
    # acquisitions that carry the exchange's own total (fiat_in_with_fee differing from amount x price + fee): the summary adds
    # up the cost bases of the detail, whatever they were derived from
    for code, m in [("BS", "fifo"), ("BBS", "lifo")] if tier == "quick" else [("BS", "fifo"), ("BBS", "lifo"), ("BSS", "fifo"), ("BBS", "hifo")]:
        js.append({"code": code, "method": m, "country": "us", "years": [2020, 2021], "filter": "to", "wf": True})
    return js


def describe(spec):
    return "%s %s %s%s %s%s" % (spec["code"], spec["method"], spec["country"], "" if spec["country"] != "generic" else "(P=%d)" % spec["period"], spec["filter"], (" shared-offset" if spec.get("off") else "") + (" supplied-total" if spec.get("wf") else ""))


def weight(spec):
    return len(spec["code"]) * 10 + len(spec["years"]) + (5 if spec["filter"] == "from-to" else 0)


def bounds(tier):
    return {"history_length": 3 if tier == "quick" else "3-4", "window_years": "2020-2022 (US, period 365) / 2020-2021 (generic, period 1 day)", "to_date": "any date from 2019-12-30 to the day after the window", "from_date": "jobs 'from-to': any date <= to_date in the same range", "amounts": "k*1e-11 in [1e-11, 1e9]", "prices": "k*1e-4 in [1e-4, 1e6]", "supplied_totals": "jobs marked supplied-total: every acquisition carries an exchange-supplied fiat_in_with_fee, k cents in [0.01, 1e11], unrelated to amount x price + fee", "utc_offset": "jobs marked shared-offset: one symbolic offset in [-12:00, +14:00] shared by all timestamps; otherwise UTC", "outside": ["Summary sheet cells (C13)", "different UTC offsets inside one history"]}


def assumptions():
    return ["per-fraction figures (proceeds, cost, gain, long/short) are taken from the GainLoss objects of the unfiltered run: C04/C05 decide those; C06 is about grouping and summation", "UTC timestamps, or one shared symbolic offset"]


def run(S, spec):
    from rp2.rp2_error import RP2ValueError  # pylint: disable=import-outside-toplevel

    years = spec["years"]
    S.set_years(years)
    off = S.int("off", -720, 840) if spec.get("off") else None
    slots = slots_of(spec["code"])
    if spec.get("wf"):
        for s in slots:
            if s["table"] == "IN":
                s["wf"] = True
    h = Hist(S, slots, years, shared_off=off, shared_sym=off is not None)
    lo = date(years[0], 1, 1).toordinal() - 2
    hi = date(years[-1], 12, 31).toordinal() + 1
    to_ord = S.int("to", lo, hi)
    to_date = S.date(to_ord)
    from_date = None
    if spec["filter"] == "from-to":
        from_ord = S.int("from", lo, hi)
        S.assume_cmp(from_ord, "<=", to_ord)
        from_date = S.date(from_ord)
    cfg0 = make_cfg(spec["country"], period=spec.get("period"))
    cfg1 = make_cfg(spec["country"], period=spec.get("period"), from_date=from_date, to_date=to_date)
    inp0 = h.build(cfg0)
    try:
        cd0 = run_tax(cfg0, {"2020": spec["method"]}, inp0)
    except RP2ValueError:
        return "error"
    inp1 = Hist.build(h, cfg1)
    cd1 = run_tax(cfg1, {"2020": spec["method"]}, inp1)
    from_year = from_date.year if from_date is not None else 1970
    exp = {}
    nfr = 0
    for g in cd0.gain_loss_set:
        ev = g.taxable_event
        if ev.timestamp.date() > to_date:
            continue
        year = ev.timestamp.year
        if year < from_year:
            continue
        key = (year, ev.transaction_type.name, bool(g.is_long_term_capital_gains()))
        acc = exp.setdefault(key, [0, 0, 0, 0, 0])
        acc[0] = acc[0] + S.ex(g.crypto_amount)
        acc[1] = acc[1] + S.ex(g.taxable_event_fiat_amount_with_fee_fraction)
        acc[2] = acc[2] + S.ex(g.fiat_cost_basis)
        acc[3] = acc[3] + S.ex(g.fiat_gain)
        acc[4] += 1
        nfr += 1
    got = {}
    for y in cd1.yearly_gain_loss_list:
        key = (y.year, y.transaction_type.name, y.is_long_term_capital_gains)
        S.expect(y.asset == "B1", "C06", "asset")
        S.expect(key not in got, "C06", "duplicate-line", "two summary lines for %s" % (key,))
        got[key] = y
    for key, y in got.items():
        S.expect(key in exp, "C06", "line-without-fraction", "summary line %s has no detail fraction (to_date/from-year filter, grouping key)" % (key,))
    for key, acc in exp.items():
        S.expect(key in got, "C06", "fraction-without-line", "fractions with key %s are missing from the summary" % (key,))
        y = got[key]
        S.expect(S.eq(S.ex(y.crypto_amount), acc[0]), "C06", "sum-crypto", "crypto amount of line %s" % (key,))
        S.expect(S.eq(S.ex(y.fiat_amount), acc[1]), "C06", "sum-proceeds", "proceeds of line %s" % (key,))
        S.expect(S.eq(S.ex(y.fiat_cost_basis), acc[2]), "C06", "sum-cost", "cost basis of line %s" % (key,))
        S.expect(S.eq(S.ex(y.fiat_gain_loss), acc[3]), "C06", "sum-gain", "gain of line %s" % (key,))
    S.observe("lines", sorted((k[0], k[1], k[2], exp[k][4]) for k in exp))
    S.observe("sums", [[exp[k][0], exp[k][1]] for k in sorted(exp)])
    S.note("fractions-in-summary", nfr)
    S.note("lines", len(exp))
    if any(k[2] for k in exp):
        S.note("paths-with-long-line")
    return "ok"
