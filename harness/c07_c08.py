"""C07 (balances = flows per account, reconcile with unsold lots) and C08 (overdrawn accounts rejected unless -n).

Unit driven: real compute_tax -> ComputedData -> BalanceSet (chronological replay, negative-balance guard).
Symbolic: amounts, fees, instants (ties included: transient same-instant overdrafts), to_date (C07).
Enumerated: skeletons, assignment of the slots to up to 4 (exchange, holder) accounts up to symmetry, -n on/off.
"""
from datetime import date

from .common import KIND, Hist, make_cfg, run_tax, slot

PROPS = ("C07", "C08")
BUDGET = {"quick": 900, "thorough": 1500}
ACCOUNTS = [("X1", "H1"), ("X2", "H1"), ("X1", "H2"), ("X2", "H2")]
TOL = 10  # 1e-10 in units of 1e-11


def _rgs(n, maxk):
    """restricted growth strings of length n with at most maxk blocks (account assignments up to renaming)"""
    out = []

    def rec(prefix, used):
        if len(prefix) == n:
            out.append(tuple(prefix))
            return
        for v in range(min(used + 1, maxk)):
            rec(prefix + [v], max(used, v + 1))

    rec([], 0)
    return out


def _assignments(code):
    npos = sum(2 if c == "M" else 1 for c in code)
    res = []
    for g in _rgs(npos, 4):
        accs = []
        k = 0
        ok = True
        for c in code:
            if c == "M":
                accs.append((g[k], g[k + 1]))
                k += 2
            else:
                accs.append((g[k],))
                k += 1
        if ok:
            res.append(accs)
    return res


def jobs(tier):
    js = []
    if tier == "quick":
        codes = {"C07": ["BMS", "BSM", "BBS", "BIM", "BMM", "BLS"], "C08": ["BS", "BSS", "BMS", "BSB", "BBS", "BMM"]}
    else:
        codes = {"C07": ["BMS", "BSM", "BBS", "BIM", "BMM", "BMSS", "BBMS", "BMMS", "BSMB"], "C08": ["BS", "BSS", "BMS", "BSB", "BBS", "BMM", "BSM", "BBSS", "BMSS", "BMMS", "BSBS"]}
    for prop, cs in codes.items():
        for code in cs:
            for accs in _assignments(code):
                if prop == "C07":
                    js.append({"for": prop, "code": code, "accs": accs, "n": True, "todate": True})
                    if code in ("BMS", "BSM") and len(set(sum(accs, ()))) <= 2:
                        js.append({"for": prop, "code": code, "accs": accs, "n": True, "todate": True, "off": "shared"})
                    if len(code) <= 3:
                        js.append({"for": prop, "code": code, "accs": accs, "n": False, "todate": False})
                else:
                    js.append({"for": prop, "code": code, "accs": accs, "n": False, "todate": False})
                    js.append({"for": prop, "code": code, "accs": accs, "n": True, "todate": False})
                    if len(code) <= 3:
                        # sheet rows in reverse time order: the guard must follow time, not rows
                        js.append({"for": prop, "code": code, "accs": accs, "n": False, "todate": False, "rev": True})
                    if code in ("BS", "BSB", "BMS", "BSS"):
                        # an own symbolic UTC offset per transaction: the guard must follow instants, not wall-clock readings
                        js.append({"for": prop, "code": code, "accs": accs, "n": False, "todate": False, "off": "each"})
    # a transfer whose whole amount may be eaten by the fee (nothing received): the destination account is still touched
    for code in ("BM", "BMS"):
        for accs in _assignments(code):
            js.append({"for": "C07", "code": code, "accs": accs, "n": True, "todate": False, "recv0": True})
    return js


def describe(spec):
    return "%s %s accs=%s%s%s" % (spec["for"], spec["code"], "/".join("".join(map(str, a)) for a in spec["accs"]), " -n" if spec["n"] else "", " to_date" if spec["todate"] else "") + (" rev-rows" if spec.get("rev") else "") + (" offset=" + spec["off"] if spec.get("off") else "") + (" received>=0" if spec.get("recv0") else "")


def weight(spec):
    return len(spec["code"]) * 10 + (5 if spec["todate"] else 0)


def select(prop, spec):
    return spec["for"] == prop


def bounds(tier):
    return {"history_length": "2-3" if tier == "quick" else "2-4", "accounts": "up to 4 (2 exchanges x 2 holders), every assignment of slots to accounts up to renaming, self-transfers included", "to_date (C07)": "any date from 2019-12-30 to 2021-01-01", "amounts/fees": "k*1e-11, k in [1, 1e20] (fees >= 0)", "instants": "microseconds in 2020, ties allowed", "utc_offsets": "C07 jobs marked offset=shared: one symbolic offset for all timestamps; C08 jobs marked offset=each: an own symbolic offset per transaction; otherwise UTC", "outside": ["C07 with different UTC offsets inside one history", "per-holder totals of the report (C13)", "C08 with a to_date"]}


def assumptions():
    return ["C08: between 'never negative under any same-instant order' and 'below -1e-10 after all transactions of an instant' nothing is demanded (the code tolerates |b| <= 5e-11 and checks in in/intra/out order)", "C08: paths on which the tax engine itself refuses the history (uncovered disposal) are left to C02", "out-transactions have no exchange-supplied crypto_out_with_fee"]


def run(S, spec):
    from rp2.rp2_error import RP2ValueError  # pylint: disable=import-outside-toplevel

    prop = spec["for"]
    S.set_years([2020])
    slots = []
    for ch, acc in zip(spec["code"], spec["accs"]):
        table, typ = KIND[ch]
        s = slot(table, typ, fee="any" if ch in "SML" else "none")
        s["ex"], s["ho"] = ACCOUNTS[acc[0]]
        if ch == "M":
            s["ex2"], s["ho2"] = ACCOUNTS[acc[1]]
            if spec.get("recv0"):
                s["a0"], s["fee"] = True, "pos"
        slots.append(s)
    n = len(slots)
    if spec.get("rev"):
        for i, s in enumerate(slots):
            s["row"] = 10 + (n - 1 - i)
    if spec.get("off") == "shared":
        h = Hist(S, slots, [2020], shared_off=S.int("off", -720, 840), shared_sym=True)
    else:
        h = Hist(S, slots, [2020], tz=spec.get("off") == "each")
    to_date = None
    if spec["todate"]:
        to_ord = S.int("to", date(2019, 12, 30).toordinal(), date(2021, 1, 1).toordinal())
        to_date = S.date(to_ord)
    cfg = make_cfg("us", allow_negative=spec["n"], to_date=to_date)
    inp = h.build(cfg)
    t, a, f = h.t, h.a, h.f
    accounts = sorted({ACCOUNTS[i] for acc in spec["accs"] for i in acc})

    def credit(i, acc):
        s = slots[i]
        if s["table"] == "IN" and (s["ex"], s["ho"]) == acc:
            return a[i]
        if s["table"] == "INTRA" and (s["ex2"], s["ho2"]) == acc:
            return a[i]
        return 0

    def debit(i, acc):
        s = slots[i]
        if s["table"] == "OUT" and (s["ex"], s["ho"]) == acc:
            return a[i] + f[i]
        if s["table"] == "INTRA" and (s["ex"], s["ho"]) == acc:
            return a[i] + f[i]
        return 0

    err = None
    cd = None
    try:
        cd = run_tax(cfg, {"2020": "fifo"}, inp)
    except RP2ValueError as e:
        err = e
    if err is not None and "Total in-transaction crypto value" in str(err):
        return "tax-error"
    if prop == "C08":
        rejected = err is not None
        if rejected:
            S.expect("went negative" in str(err), "C08", "other-error", str(err)[:200])
        # R: some account is below -1e-10 after all transactions of some instant
        r_acc = None
        for acc in accounts:
            for j in range(n):
                bal = sum(credit(i, acc) - debit(i, acc) for i in range(n) if t[i] <= t[j])
                if bal < -TOL:
                    r_acc = acc
                    break
            if r_acc:
                break
        if spec["n"]:
            S.expect(not rejected, "C08", "rejected-with-n", "history rejected although negative balances are allowed")
        elif r_acc is not None:
            S.expect(rejected, "C08", "overdraft-accepted", "account %s/%s is overdrawn by more than 1e-10 but the run succeeded" % r_acc)
            named = any(('"%s"' % acc[0]) in str(err) and ('"%s"' % acc[1]) in str(err) for acc in accounts)
            S.expect(named, "C08", "account-not-named", str(err)[:200])
        else:
            safe = True
            for acc in accounts:
                for j in range(n):
                    before = sum(credit(i, acc) - debit(i, acc) for i in range(n) if t[i] < t[j])
                    at = sum(debit(i, acc) for i in range(n) if t[i] == t[j])
                    if before - at < 0:
                        safe = False
                        break
                if not safe:
                    break
            if safe:
                S.expect(not rejected, "C08", "spurious-rejection", "no account can go negative under any same-instant order, yet the run was rejected: %s" % str(err)[:160])
            else:
                # inside one instant what an account acquires and receives is there before it is sold (acquisitions, then
                # transfers, then disposals): transfers of the same instant are taken in their worst order, a disposal may
                # rely on everything that arrived in the same instant
                ok2 = True
                for acc in accounts:
                    for j in range(n):
                        before = sum(credit(i, acc) - debit(i, acc) for i in range(n) if t[i] < t[j])
                        same = [i for i in range(n) if t[i] == t[j]]
                        in_c = sum(credit(i, acc) for i in same if slots[i]["table"] == "IN")
                        tr_c = sum(credit(i, acc) for i in same if slots[i]["table"] == "INTRA")
                        tr_d = sum(debit(i, acc) for i in same if slots[i]["table"] == "INTRA")
                        out_d = sum(debit(i, acc) for i in same if slots[i]["table"] == "OUT")
                        if before + in_c - tr_d < 0 or before + in_c + tr_c - tr_d - out_d < 0:
                            ok2 = False
                            break
                    if not ok2:
                        break
                if ok2:
                    S.expect(not rejected, "C08", "spurious-rejection-tie", "every account covers its disposals with what it holds and receives up to the same instant, yet the run was rejected: %s" % str(err)[:160])
        if rejected:
            S.note("rejected")
            return "rejected"
    if err is not None:
        if prop == "C07":
            S.expect("went negative" in str(err) and not spec["n"], "C07", "other-error", str(err)[:200])
        return "rejected"
    # ---- C07 / C08 (-n reporting): balances against the flows
    def included(i):
        if to_date is None:
            return True
        return not h.txs[i].timestamp.date() > to_date

    inc = [included(i) for i in range(n)]
    got = {}
    for b in cd.balance_set:
        key = (b.exchange, b.holder)
        S.expect(key not in got, prop, "duplicate-account", "account %s/%s listed twice" % key)
        S.expect(b.asset == "B1", prop, "asset")
        got[key] = b
    obs = []
    total_final = 0
    for acc in ACCOUNTS:
        touched = any(inc[i] and ((slots[i]["ex"], slots[i]["ho"]) == acc or (slots[i]["table"] == "INTRA" and (slots[i]["ex2"], slots[i]["ho2"]) == acc)) for i in range(n))
        S.expect((acc in got) == touched, prop, "account-set", "account %s/%s %s" % (acc[0], acc[1], "missing" if touched else "listed although untouched"))
        if not touched:
            continue
        b = got[acc]
        acq = sum(a[i] for i in range(n) if inc[i] and slots[i]["table"] == "IN" and (slots[i]["ex"], slots[i]["ho"]) == acc)
        sent = sum(debit(i, acc) for i in range(n) if inc[i])
        recv = sum(a[i] for i in range(n) if inc[i] and slots[i]["table"] == "INTRA" and (slots[i]["ex2"], slots[i]["ho2"]) == acc)
        S.expect(S.ex(b.acquired_balance) == S.ex_int(acq, 11), prop, "acquired", "acquired balance of %s/%s" % acc)
        S.expect(S.ex(b.sent_balance) == S.ex_int(sent, 11), prop, "sent", "sent balance of %s/%s" % acc)
        S.expect(S.ex(b.received_balance) == S.ex_int(recv, 11), prop, "received", "received balance of %s/%s" % acc)
        S.expect(S.ex(b.final_balance) == S.ex_int(acq + recv - sent, 11), prop, "final", "final balance of %s/%s" % acc)
        total_final = total_final + S.ex(b.final_balance)
        obs.append((acc[0], acc[1], S.ex(b.final_balance)))
    if prop == "C07":
        unconsumed = sum(a[i] for i in range(n) if inc[i] and slots[i]["table"] == "IN")
        unconsumed = S.ex_int(unconsumed, 11)
        for g in cd.gain_loss_set:
            if g.acquired_lot is not None:
                unconsumed = unconsumed - S.ex(g.crypto_amount)
        S.expect(total_final == unconsumed, "C07", "reconcile", "sum of final balances differs from what the tax computation leaves unconsumed in lots")
    S.observe("balances", obs)
    return "ok"
