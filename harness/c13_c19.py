"""C13 (full report shows every transaction and fraction once, with the computed values) and C19 (hyperlinks lead to
the row of the same transaction), decided at the AbstractODSGenerator._fill_cell boundary of the real generator.

Unit driven: compute_tax for two assets sharing one AccountingEngine (as rp2_main does), then
rp2.plugin.report.rp2_full_report.Generator().generate(...) on real ezodf with the real template.
Symbolic: amounts, prices, fees, instants (ties), from/to dates (which rows are hidden is decided by the solver).
Enumerated: skeletons of the two assets (colliding row numbers), method / schedule, country template.
"""
from datetime import date

from . import reportlib
from .reportlib import tr
from .common import Hist, make_cfg, method_tree, slots_of

PROPS = ("C13", "C19")
BUDGET = {"quick": 1500, "thorough": 1500}
CHUNK = 40


def jobs(tier):
    js = []

    def add(c1, c2, method="fifo", filt="none", country="us", years=(2020,), **kw):
        j = {"for": "C13", "c1": c1, "c2": c2, "schedule": {"2020": method}, "filter": filt, "country": country, "years": list(years)}
        j.update(kw)
        js.append(j)

    # the two assets are independent, so the number of paths is the product of theirs: B2 is kept minimal unless the
    # job is about the interplay of the two sheets (colliding row numbers under a date filter)
    for c1 in ["BSS", "BBS", "BIS", "BMS"]:
        add(c1, "B")
    add("BBS", "B", method="hifo")
    add("BBS", "I", method="lifo")
    add("BS", "BS", filt="from-to")
    add("BSS", "B", filt="to")
    add("BSS", "B", filt="from")  # the from-date can cut into a partly sold lot: labels keep counting hidden fractions
    add("BSBS", "B", method="lifo")  # a lot whose fractions are not adjacent rows
    add("BS", "B", filt="from-to", years=(2020, 2021))
    add("BS", "B", filt="from-to", off="shared")  # one symbolic UTC offset: windows and years are those of the local date
    add("BS", "B", country="generic")
    add("BS", "B", country="es")
    add("BBS", "B", schedule={"2020": "fifo", "2021": "hifo"}, years=(2020, 2021))
    add("BS", "B", schedule={"2019": "hifo"}, config_schedule=True)  # [accounting_methods] section with a single year
    add("BBS", "B", uid="same")
    add("BFS", "B")  # a fee-only out-transaction between purchases and a sale: running sums of the out-flow table
    add("BII", "B")  # two income events of one type, free to share their instant: adjacent rows of the detail table
    add("BBB", "B", accounts="abc")  # accounts X1/H1, X1/H2, X2/H1: one holder's accounts are not adjacent in exchange order  # partial fills sharing one order id: several transactions of one asset with the same unique id
    if tier == "thorough":
        add("BBS", "B", filt="from", method="lifo")
        for c1 in ["BSM", "BBSS", "BISS"]:
            add(c1, "B")
        add("BSS", "BS")
        add("BBS", "BI", method="lifo")
        add("BSS", "BS", filt="from-to")
        add("BBS", "BS", filt="from-to", method="lifo")
        add("BS", "BS", filt="from-to", years=(2020, 2021))
        add("BS", "B", country="jp")
        add("BS", "B", country="ie")
    return js


def describe(spec):
    return "B1=%s B2=%s %s filter=%s %s %s" % (spec["c1"], spec["c2"], ",".join("%s:%s" % kv for kv in sorted(spec["schedule"].items())), spec["filter"], spec["country"], "-".join(map(str, spec["years"]))) + (" uid=" + spec["uid"] if spec.get("uid") else "") + (" offset=shared" if spec.get("off") else "") + (" accounts=" + spec["accounts"] if spec.get("accounts") else "")


def weight(spec):
    return (len(spec["c1"]) + len(spec["c2"])) * 10 + (15 if spec["filter"] != "none" else 0) + len(spec["years"]) * 3


def bounds(tier):
    return {
        "assets": "2 (B1: %s transactions, B2: 1-2), identical sheet row numbers in both assets" % ("2-3" if tier == "quick" else "2-4"),
        "filters": "none / symbolic to_date / symbolic from_date / both, anywhere from 2019-12-30 to 2022-01-01",
        "instants": "microseconds inside the window years, ties allowed, UTC (one job: a symbolic UTC offset shared by all timestamps)",
        "amounts": "k*1e-11 in [1e-11, 1e9]",
        "prices": "k*1e-4 in [1e-4, 1e6]",
        "templates": "us (en) plus generic, es" + (", jp, ie" if tier == "thorough" else ""),
        "outside": ["float() conversion and the .ods bytes (exercised by the concrete replay only)", "cell styles", "sold percentage and running sums under a from_date (not specified by the property)", "longer histories"],
    }


def assumptions():
    return [
        "observation point is the _fill_cell call (sheet, row, column, value); a concrete placeholder is handed on to ezodf for symbolic values",
        "class-level dictionaries of the Generator class are emptied before each generate() call (a fresh process, as the CLI is)",
        "table columns are identified by position as in the current report layout; tables are located by their title cells",
        "reference values are the ComputedData objects (decided by C01-C10) and, for amounts, prices, running sums, counts and hidden rows, the input variables themselves",
    ]


IN_OUT_TITLES = ["In-Flow Detail", "Out-Flow Detail", "Intra-Flow Detail"]
TAX_TITLES = ["Gain / Loss Summary", "Account Balances", "Average Price", "Gain / Loss Detail"]


def _sections(rows, titles):
    """{title: [data row indexes]} - rows strictly between (title + 2) and the next title"""
    pos = {}
    for t in titles:
        rs = sorted(r for r, cells in rows.items() if type(cells.get(0)) is str and cells.get(0) == t)  # pylint: disable=unidiomatic-typecheck
        if rs:
            pos[t] = rs[0]
    out = {}
    order = sorted(pos.items(), key=lambda kv: kv[1])
    for i, (t, r0) in enumerate(order):
        r1 = order[i + 1][1] if i + 1 < len(order) else max(rows) + 1
        out[t] = [r for r in sorted(rows) if r0 + 2 < r < r1]
    return out, pos


def _num(S, v):
    if isinstance(v, str) or v is None:
        S.fail("C13", "not-a-number", "a numeric cell holds %r" % (v,))
    return S.ex(v)


def run(S, spec):
    from rp2.accounting_engine import AccountingEngine  # pylint: disable=import-outside-toplevel
    from rp2.rp2_error import RP2ValueError  # pylint: disable=import-outside-toplevel
    from rp2.tax_engine import compute_tax  # pylint: disable=import-outside-toplevel

    years = spec["years"]
    S.set_years(years)
    s1 = slots_of(spec["c1"], asset="B1")
    s2 = slots_of(spec["c2"], asset="B2")
    for i, s in enumerate(s1):
        s["row"] = 10 + i
        s["ho"] = "H1" if i % 2 == 0 else "H2"
        if spec.get("uid") == "same":
            s["uid"] = "order-77"
        if spec.get("accounts"):
            s["ex"], s["ho"] = {"a": ("X1", "H1"), "b": ("X1", "H2"), "c": ("X2", "H1"), "d": ("X2", "H2")}[spec["accounts"][i]]
    for i, s in enumerate(s2):
        s["row"] = 10 + i  # same sheet rows as asset B1
    off = S.int("off", -720, 840) if spec.get("off") else None
    h1 = Hist(S, s1, years, prefix="x", shared_off=off, shared_sym=off is not None)
    h2 = Hist(S, s2, years, prefix="y", shared_off=off, shared_sym=off is not None)
    lo = date(years[0], 1, 1).toordinal() - 2
    hi = date(years[-1], 12, 31).toordinal() + 1
    from_date = to_date = None
    if spec["filter"] in ("from", "from-to"):
        from_ord = S.int("from", lo, hi)
        from_date = S.date(from_ord)
    if spec["filter"] in ("to", "from-to"):
        to_ord = S.int("to", lo, hi)
        if from_date is not None:
            S.assume_cmp(from_ord, "<=", to_ord)
        to_date = S.date(to_ord)
    cfg = make_cfg(spec["country"], from_date=from_date, to_date=to_date, allow_negative=True)
    engine = AccountingEngine(method_tree(spec["schedule"]))
    cds, inps = {}, {}
    for asset, h in (("B1", h1), ("B2", h2)):
        inps[asset] = h.build(cfg, asset)
        try:
            cds[asset] = compute_tax(cfg, engine, inps[asset])
        except RP2ValueError:
            return "error"
    # -m <method> on the command line gives {1970: method}; an [accounting_methods] section gives its own years
    names = {1970: list(spec["schedule"].values())[0]} if len(spec["schedule"]) == 1 and not spec.get("config_schedule") else {int(y): m for y, m in spec["schedule"].items()}
    _reset_class_state()
    lang = spec.get("lang") or reportlib.LANG[spec["country"]]
    rec, err = reportlib.generate(S, "rp2_full_report", cfg.country, cds, names, cfg.from_date, cfg.to_date, lang=lang)
    if err is not None:
        S.fail("C13", "generator-exception", "%s: %s" % (type(err).__name__, str(err)[:200]), tag=type(err).__name__)
    hists = {"B1": h1, "B2": h2}
    rowmaps = {}
    for asset in ("B1", "B2"):
        rowmaps[asset] = check_in_out(S, rec, asset, cds[asset], inps[asset], hists[asset], from_date, to_date)
    first_rows = {}
    for asset in ("B1", "B2"):
        first_rows[asset] = check_tax(S, rec, asset, cds[asset], hists[asset], rowmaps, from_date, to_date)
    check_summary(S, rec, cds, first_rows)
    check_legend(S, rec, spec, from_date, to_date)
    S.observe("rows", {a: sorted(rowmaps[a].values()) for a in rowmaps})
    S.note("cells", sum(len(v) for v in rec.sheets.values()))
    return "ok"


def _reset_class_state():
    import rp2.plugin.report.rp2_full_report as m  # pylint: disable=import-outside-toplevel

    for k, v in list(vars(m.Generator).items()):
        if isinstance(v, dict):
            v.clear()


def _window(tx, from_date, to_date):
    d = tx.timestamp.date()
    if from_date is not None and d < from_date:
        return False
    if to_date is not None and d > to_date:
        return False
    return True


def _eqnum(S, prop, kind, what, cell, want):
    S.expect(S.eq(_num(S, cell), want), prop, kind, what)


def check_in_out(S, rec, asset, cd, inp, h, from_date, to_date):
    """returns {transaction row id: 0-based sheet row of '<asset> In-Out'} for the transactions shown"""
    sheet = tr("{} In-Out").format(asset)
    rows = rec.rows(sheet)
    S.expect(bool(rows), "C13", "sheet-missing", "sheet %r was not written" % sheet)
    secs, _ = _sections(rows, [tr(t) for t in IN_OUT_TITLES])
    for t in [tr(t) for t in IN_OUT_TITLES]:
        S.expect(t in secs, "C13", "table-missing", "%s: table %r missing" % (sheet, t))
    n = len(h.slots)
    mine = [i for i in range(n) if h.slots[i]["asset"] == asset]
    rowmap = {}
    written = set()
    for title, table, cdset, unfiltered in (
        (tr("In-Flow Detail"), "IN", cd.in_transaction_set, inp.unfiltered_in_transaction_set),
        (tr("Out-Flow Detail"), "OUT", cd.out_transaction_set, inp.unfiltered_out_transaction_set),
        (tr("Intra-Flow Detail"), "INTRA", cd.intra_transaction_set, inp.unfiltered_intra_transaction_set),
    ):
        expected = [i for i in mine if h.slots[i]["table"] == table and _window(h.txs[i], from_date, to_date)]
        data = secs[title]
        S.expect(len(data) == len(expected), "C13", "row-count", "%s / %s: %d rows written, %d transactions in the window" % (sheet, title, len(data), len(expected)))
        shown = list(cdset)
        S.expect(sorted(t.row for t in shown) == sorted(h.row(i) for i in expected), "C13", "window-set", "%s / %s: computed set and window differ" % (sheet, title))
        # running sums over the whole history in time order
        run_a = run_b = 0
        sums = {}
        for tx in unfiltered:
            if table == "IN":
                run_a = run_a + S.ex(tx.crypto_in)
            elif table == "OUT":
                run_a = run_a + S.ex(tx.crypto_out_no_fee)
                run_b = run_b + S.ex(tx.crypto_fee)
            else:
                run_b = run_b + S.ex(tx.crypto_fee)
            sums[tx.row] = (run_a, run_b)
        prev_ts = None
        for k, (r, tx) in enumerate(zip(data, shown)):
            c = rows[r]
            i = [j for j in mine if h.row(j) == tx.row][0]
            what = "%s row %d (%s slot %d)" % (sheet, r + 1, table, i)
            S.expect(tx.row not in written, "C13", "shown-twice", what)
            written.add(tx.row)
            rowmap[tx.row] = r
            S.expect(c.get(1) == tx.timestamp, "C13", "timestamp", what)
            if prev_ts is not None:
                S.expect(not c.get(1) < prev_ts, "C13", "not-time-sorted", what)
            prev_ts = c.get(1)
            S.expect(c.get(2) == asset, "C13", "asset-cell", what)
            price = S.ex_int(h.p[i], h.price_k)
            if table == "IN":
                S.expect((c.get(3), c.get(4), c.get(5)) == (tx.exchange, tx.holder, tx.transaction_type.get_translation().upper()), "C13", "text-cells", what)
                _eqnum(S, "C13", "spot-price", what, c.get(6), price)
                _eqnum(S, "C13", "crypto-in", what, c.get(7), S.ex_int(h.a[i], 11))
                _eqnum(S, "C13", "running-sum", what, c.get(8), sums[tx.row][0])
                _eqnum(S, "C13", "fiat-fee", what, c.get(9), S.ex(tx.fiat_fee))
                _eqnum(S, "C13", "fiat-in-no-fee", what, c.get(10), S.ex(tx.fiat_in_no_fee))
                _eqnum(S, "C13", "fiat-in-with-fee", what, c.get(11), S.ex(tx.fiat_in_with_fee))
                S.expect(c.get(12) == (tr("YES") if h.is_earn(i) else tr("NO")), "C13", "taxable-flag", what)
                S.expect(tx.transaction_type.name == h.slots[i]["type"], "C13", "text-cells", what)
                if from_date is None:
                    sold = 0
                    for g in cd.gain_loss_set:
                        if g.acquired_lot is not None and g.acquired_lot.row == tx.row:
                            sold = sold + S.ex(g.crypto_amount)
                    pct = sold / S.ex_int(h.a[i], 11)
                    v = c.get(0)
                    if type(v) is str and v == "":  # pylint: disable=unidiomatic-typecheck
                        S.expect(k > 0 and not pct * 10**13 > 1, "C13", "sold-percentage", what + ": empty although part of the lot is sold")
                    else:
                        _eqnum(S, "C13", "sold-percentage", what, v, pct)
            elif table == "OUT":
                S.expect((c.get(3), c.get(4), c.get(5)) == (tx.exchange, tx.holder, tx.transaction_type.get_translation().upper()), "C13", "text-cells", what)
                _eqnum(S, "C13", "spot-price", what, c.get(6), price)
                _eqnum(S, "C13", "crypto-out", what, c.get(7), S.ex(tx.crypto_out_no_fee))
                _eqnum(S, "C13", "crypto-fee", what, c.get(8), S.ex(tx.crypto_fee))
                S.expect(S.eq(_num(S, c.get(7)) + _num(S, c.get(8)), S.ex_int(h.need(i), 11)), "C13", "crypto-out", what + ": amount + fee")
                _eqnum(S, "C13", "running-sum", what, c.get(9), sums[tx.row][0])
                _eqnum(S, "C13", "running-sum", what, c.get(10), sums[tx.row][1])
                _eqnum(S, "C13", "fiat-out", what, c.get(11), S.ex(tx.fiat_out_no_fee))
                _eqnum(S, "C13", "fiat-fee", what, c.get(12), S.ex(tx.fiat_fee))
                S.expect(c.get(13) == tr("YES"), "C13", "taxable-flag", what)
                S.expect(tx.transaction_type.name == h.slots[i]["type"], "C13", "text-cells", what)
            else:
                S.expect((c.get(3), c.get(4), c.get(5), c.get(6)) == (tx.from_exchange, tx.from_holder, tx.to_exchange, tx.to_holder), "C13", "text-cells", what)
                _eqnum(S, "C13", "spot-price", what, c.get(7), price)
                _eqnum(S, "C13", "crypto-sent", what, c.get(8), S.ex_int(h.a[i] + h.f[i], 11))
                _eqnum(S, "C13", "crypto-received", what, c.get(9), S.ex_int(h.a[i], 11))
                _eqnum(S, "C13", "crypto-fee", what, c.get(10), S.ex_int(h.f[i], 11))
                _eqnum(S, "C13", "running-sum", what, c.get(11), sums[tx.row][1])
                _eqnum(S, "C13", "fiat-fee", what, c.get(12), S.ex(tx.fiat_fee))
                S.expect(c.get(13) == (tr("YES") if h.f[i] > 0 else tr("NO")), "C13", "taxable-flag", what)
    return rowmap


def _link_ok(S, cell, tx, asset, rowmaps, what):
    """C19: the cell links to the In-Out row of `tx` when that row is shown, and carries no link otherwise.
    Returns the linked (or plain) value as ('num'|'ts'|'str'|'parts', value)."""
    link = reportlib.parse_link(cell)
    shown = rowmaps[asset].get(tx.row)
    if shown is None:
        S.expect(link is None, "C19", "link-to-hidden", "%s: the transaction is hidden by the date filter but the cell links to %s" % (what, link[:2] if link else None))
    else:
        S.expect(link is not None, "C19", "link-missing", "%s: no hyperlink although the transaction is on row %d of its In-Out sheet" % (what, shown + 1))
        S.expect(link[0] == tr("{} In-Out").format(asset), "C19", "link-sheet", "%s: links to sheet %r" % (what, link[0]))
        S.expect(link[1] == shown + 1, "C19", "link-row", "%s: links to row %d, the transaction is on row %d" % (what, link[1], shown + 1))
    if link is None:
        if type(cell).__name__ in ("SymStr", "SymTsStr"):
            return reportlib.inner_value(S, list(cell.parts))
        if isinstance(cell, str):
            return reportlib.inner_value(S, [cell]) if cell != "" else ("str", "")
        if hasattr(cell, "utcoffset"):
            return ("ts", cell)
        return ("num", S.ex(cell))
    return reportlib.inner_value(S, link[2])


def _expect_val(S, got, kind, want, what, prop="C13", vkind="detail-value"):
    S.expect(got[0] == kind or (kind == "ts" and got[0] == "str"), prop, vkind, "%s: cell holds %s" % (what, got[0]))
    if kind == "num":
        S.expect(S.eq(got[1], want), prop, vkind, what)
    elif kind == "ts":
        if isinstance(got[1], str):
            S.expect(got[1] == str(want), prop, vkind, what)
        else:
            S.expect(got[1] == want, prop, vkind, what)
    else:
        S.expect(got[1] == want, prop, vkind, "%s: %r" % (what, got[1]))


def check_tax(S, rec, asset, cd, h, rowmaps, from_date, to_date):
    """returns {year: 0-based row of the first detail row of that year}"""
    sheet = tr("{} Tax").format(asset)
    rows = rec.rows(sheet)
    S.expect(bool(rows), "C13", "sheet-missing", "sheet %r was not written" % sheet)
    titles = [tr(t) for t in TAX_TITLES]
    secs, pos = _sections(rows, titles)
    for t in titles:
        S.expect(t in pos, "C13", "table-missing", "%s: table %r missing" % (sheet, t))
    # ---- yearly summary of the asset
    ylist = list(cd.yearly_gain_loss_list)
    data = secs[tr("Gain / Loss Summary")]
    S.expect(len(data) == len(ylist), "C13", "row-count", "%s / summary: %d rows, %d yearly lines" % (sheet, len(data), len(ylist)))
    for r, y in zip(data, ylist):
        c = rows[r]
        what = "%s summary row %d" % (sheet, r + 1)
        S.expect((c.get(0), c.get(1), c.get(3), c.get(4)) == (y.year, asset, tr("LONG") if y.is_long_term_capital_gains else tr("SHORT"), y.transaction_type.get_translation().upper()), "C13", "summary-key", what)
        for col, v in ((2, y.fiat_gain_loss), (5, y.crypto_amount), (6, y.fiat_amount), (7, y.fiat_cost_basis)):
            _eqnum(S, "C13", "summary-value", what, c.get(col), S.ex(v))
    # ---- balances and per-holder totals
    bl = list(cd.balance_set)
    data = secs[tr("Account Balances")]
    holders = sorted({b.holder for b in bl})
    S.expect(len(data) == len(bl) + len(holders), "C13", "row-count", "%s / balances: %d rows for %d accounts and %d holders" % (sheet, len(data), len(bl), len(holders)))
    totals = {}
    for r, b in zip(data, bl):
        c = rows[r]
        what = "%s balance row %d" % (sheet, r + 1)
        S.expect((c.get(0), c.get(1), c.get(2)) == (b.exchange, b.holder, asset), "C13", "balance-key", what)
        for col, v in ((3, b.acquired_balance), (4, b.sent_balance), (5, b.received_balance), (6, b.final_balance)):
            _eqnum(S, "C13", "balance-value", what, c.get(col), S.ex(v))
        totals[b.holder] = totals.get(b.holder, 0) + S.ex(b.final_balance)
    seen = set()
    for r in data[len(bl):]:
        c = rows[r]
        what = "%s holder total row %d" % (sheet, r + 1)
        S.expect(c.get(0) == tr("Total") and c.get(1) in totals and c.get(1) not in seen, "C13", "holder-total", what)
        seen.add(c.get(1))
        _eqnum(S, "C13", "holder-total", what, c.get(6), totals[c.get(1)])
    # ---- average price
    r0 = pos[tr("Average Price")]
    _eqnum(S, "C13", "average-price", "%s average price" % sheet, rows[r0 + 3].get(0), S.ex(cd.price_per_unit))
    # ---- gain / loss detail
    gls = cd.gain_loss_set
    gl = list(gls)
    data = secs[tr("Gain / Loss Detail")]
    S.expect(len(data) == len(gl), "C13", "row-count", "%s / detail: %d rows, %d fractions in the window" % (sheet, len(data), len(gl)))
    n = len(h.slots)
    row2slot = {h.row(i): i for i in range(n) if h.slots[i]["asset"] == asset}
    per_event, per_lot = {}, {}
    for g in gl:
        per_event.setdefault(g.taxable_event.row, []).append(g)
        if g.acquired_lot is not None:
            per_lot.setdefault(g.acquired_lot.row, []).append(g)
    running = 0
    first_rows = {}
    for r, g in zip(data, gl):
        c = rows[r]
        ev, lot = g.taxable_event, g.acquired_lot
        what = "%s detail row %d" % (sheet, r + 1)
        S.expect(_window(ev, from_date, to_date), "C13", "fraction-outside-window", what)
        year = ev.timestamp.year
        first_rows.setdefault(year, r)
        running = running + S.ex(g.crypto_amount)
        _eqnum(S, "C13", "detail-value", what + " amount", c.get(0), S.ex(g.crypto_amount))
        S.expect(c.get(1) == asset, "C13", "asset-cell", what)
        if from_date is None:
            _eqnum(S, "C13", "running-sum", what, c.get(2), running)
        _eqnum(S, "C13", "detail-value", what + " gain", c.get(3), S.ex(g.fiat_gain))
        S.expect(c.get(4) == (tr("LONG") if g.is_long_term_capital_gains() else tr("SHORT")), "C13", "long-short", what)
        table = {"InTransaction": "IN", "OutTransaction": "OUT", "IntraTransaction": "INTRA"}[type(ev).__name__]
        _expect_val(S, _link_ok(S, c.get(5), ev, asset, rowmaps, what + " col F"), "ts", ev.timestamp, what + " event timestamp")
        _expect_val(S, _link_ok(S, c.get(6), ev, asset, rowmaps, what + " col G"), "str", "%s / %s" % (table, ev.transaction_type.get_translation().upper()), what + " event type")
        _expect_val(S, _link_ok(S, c.get(7), ev, asset, rowmaps, what + " col H"), "num", S.ex(g.crypto_amount) / S.ex(ev.crypto_balance_change), what + " event fraction %")
        _expect_val(S, _link_ok(S, c.get(8), ev, asset, rowmaps, what + " col I"), "num", S.ex(g.taxable_event_fiat_amount_with_fee_fraction), what + " proceeds")
        _expect_val(S, _link_ok(S, c.get(9), ev, asset, rowmaps, what + " col J"), "num", S.ex(ev.spot_price), what + " event spot price")
        _link_ok(S, c.get(10), ev, asset, rowmaps, what + " col K")
        note = _link_ok(S, c.get(11), ev, asset, rowmaps, what + " col L")
        k = [x for x in per_event[ev.row]].index(g) + 1
        _check_note(S, note, k, len(per_event[ev.row]), S.ex(g.crypto_amount), S.ex(ev.crypto_balance_change), asset, what + " event label")
        if lot is None:
            for col in range(12, 19):
                S.expect(c.get(col) == "", "C13", "earn-with-lot-cells", what)
            continue
        _expect_val(S, _link_ok(S, c.get(12), lot, asset, rowmaps, what + " col M"), "ts", lot.timestamp, what + " lot timestamp")
        _expect_val(S, _link_ok(S, c.get(13), lot, asset, rowmaps, what + " col N"), "num", S.ex(g.crypto_amount) / S.ex(lot.crypto_in), what + " lot fraction %")
        _link_ok(S, c.get(14), lot, asset, rowmaps, what + " col O")
        _link_ok(S, c.get(15), lot, asset, rowmaps, what + " col P")
        _expect_val(S, _link_ok(S, c.get(16), lot, asset, rowmaps, what + " col Q"), "num", S.ex(g.fiat_cost_basis), what + " cost basis")
        _expect_val(S, _link_ok(S, c.get(17), lot, asset, rowmaps, what + " col R"), "num", S.ex(lot.spot_price), what + " lot spot price")
        _link_ok(S, c.get(18), lot, asset, rowmaps, what + " col S")
        note = _link_ok(S, c.get(19), lot, asset, rowmaps, what + " col T")
        if from_date is None:
            kk, nn = per_lot[lot.row].index(g) + 1, len(per_lot[lot.row])
        else:
            kk, nn = gls.get_acquired_lot_fraction(g) + 1, gls.get_acquired_lot_number_of_fractions(lot)
        _check_note(S, note, kk, nn, S.ex(g.crypto_amount), S.ex(lot.crypto_in), asset, what + " lot label")
    del row2slot
    return first_rows


def _check_note(S, note, k, n, amount, total, asset, what):
    S.expect(note[0] in ("parts", "str"), "C13", "fraction-label", "%s: not a label" % what)
    parts = note[1] if note[0] == "parts" else [note[1]]
    gk, gn, x, y, a, rounded = reportlib.parse_note(S, parts)
    S.expect((gk, gn) == (k, n), "C13", "fraction-label", "%s: reads %d/%d, expected %d/%d" % (what, gk, gn, k, n))
    S.expect(a == asset, "C13", "fraction-label", what)
    if rounded:
        S.expect(abs(x - amount) * 10**8 * 2 <= 1 and abs(y - total) * 10**8 * 2 <= 1, "C13", "fraction-label", "%s: amounts" % what)
    else:
        S.expect(S.eq(x, amount) and S.eq(y, total), "C13", "fraction-label", "%s: amounts" % what)


def check_summary(S, rec, cds, first_rows):
    rows = rec.rows(tr("Summary"))
    data = [r for r in sorted(rows) if r > 2]
    want = [(asset, y) for asset in cds for y in cds[asset].yearly_gain_loss_list]
    S.expect(len(data) == len(want), "C13", "row-count", "Summary: %d rows, %d yearly lines" % (len(data), len(want)))
    for r, (asset, y) in zip(data, want):
        c = rows[r]
        what = "Summary row %d (%s %d)" % (r + 1, asset, y.year)
        vals = []
        for col in range(8):
            cell = c.get(col)
            link = reportlib.parse_link(cell)
            target = first_rows[asset].get(y.year)
            if target is None:
                # no detail row of that year is shown (date filter): there is no row describing this line, so any link leads
                # to a row about something else
                S.expect(link is None, "C19", "summary-link-dangling", "%s links to %s although no gain/loss row of that year is shown" % (what, link[:2] if link is not None else None))
            else:
                S.expect(link is not None, "C19", "summary-link-missing", what)
                S.expect(link[0] == tr("{} Tax").format(asset), "C19", "summary-link-sheet", "%s links to %r" % (what, link[0]))
                S.expect(link[1] == target + 1, "C19", "summary-link-row", "%s links to row %d, the first detail row of that year is %d" % (what, link[1], target + 1))
            if link is not None:
                vals.append(reportlib.inner_value(S, link[2]))
            elif isinstance(cell, str) or type(cell).__name__ in ("SymStr",):
                vals.append(reportlib.inner_value(S, list(getattr(cell, "parts", [cell]))))
            elif isinstance(cell, int):
                vals.append(("num", cell))
            else:
                vals.append(("num", S.ex(cell)))
        S.expect(vals[0][0] == "num" and vals[0][1] == y.year, "C13", "summary-key", what + " year")
        S.expect(vals[1] == ("str", asset), "C13", "summary-key", what + " asset")
        S.expect(vals[3] == ("str", tr("LONG") if y.is_long_term_capital_gains else tr("SHORT")), "C13", "summary-key", what + " long/short")
        S.expect(vals[4] == ("str", y.transaction_type.get_translation().upper()), "C13", "summary-key", what + " type")
        for col, v in ((2, y.fiat_gain_loss), (5, y.crypto_amount), (6, y.fiat_amount), (7, y.fiat_cost_basis)):
            S.expect(vals[col][0] == "num" and S.eq(vals[col][1], S.ex(v)), "C13", "summary-value", "%s column %d" % (what, col))


def check_legend(S, rec, spec, from_date, to_date):
    rows = rec.rows(tr("Legend"))
    rs = [r for r, c in rows.items() if type(c.get(0)) is str and c.get(0) == tr("Accounting Method")]  # pylint: disable=unidiomatic-typecheck
    S.expect(len(rs) == 1, "C13", "legend", "no 'Accounting Method' row in the Legend")
    r = rs[0]
    got = rows[r].get(1)
    sched = spec["schedule"]
    if len(sched) == 1:
        m = list(sched.values())[0].upper()
        S.expect(isinstance(got, str) and m in got and not any(o in got for o in ("FIFO", "LIFO", "HIFO", "LOFO") if o != m), "C13", "legend-method", "Legend states method %r" % (got,))
    else:
        for y, m in sched.items():
            S.expect(isinstance(got, str) and ("%s:%s" % (y, m.upper())) in got, "C13", "legend-method", "Legend states %r for schedule %s" % (got, sched))
    for off, d, name in ((1, from_date, "from"), (2, to_date, "to")):
        v = rows[r + off].get(1)
        if d is None:
            S.expect(type(v) is str and v == "non-specified", "C13", "legend-filter", "Legend %s-date cell holds %r without a filter" % (name, v))  # pylint: disable=unidiomatic-typecheck
        else:
            S.expect(not isinstance(v, str) and v == d, "C13", "legend-filter", "Legend %s-date cell does not hold the filter date" % name)
