"""C09 (later transactions never change earlier results) and C10 (date filters only hide rows).

Unit driven: several real compute_tax runs on ONE symbolic path, compared with each other:
  C09a  history P vs history P ++ K (every instant of K after every instant of P): everything about P's events equal
  C09b  run on P vs run on P ++ K limited by a symbolic to_date between date(last of P) and date(first of K)
  C10   unfiltered vs to_date-only vs from_date+to_date runs on the same history
Symbolic: all instants, amounts, prices (so the continuation's lots can be 'preferred' by the method), dates.
"""
from datetime import date

from .common import Hist, make_cfg, run_tax, slots_of

PROPS = ("C09", "C10")
BUDGET = {"quick": 1200, "thorough": 1500}
METHODS = ("fifo", "lifo", "hifo", "lofo")


def jobs(tier):
    js = []
    if tier == "quick":
        pk = [("BS", "B"), ("BS", "BS"), ("BBS", "B"), ("BBS", "S"), ("BSS", "B"), ("BIS", "B"), ("BS", "I"), ("BM", "B")]
        pk_b = [("BS", "B"), ("BBS", "B"), ("BS", "BS"), ("BIS", "S")]
        c10 = ["BSS", "BBS", "BIS", "BSM"]
    else:
        pk = [("BS", "B"), ("BS", "BS"), ("BBS", "B"), ("BBS", "S"), ("BSS", "B"), ("BIS", "B"), ("BS", "I"), ("BM", "B"), ("BBS", "BS"), ("BSS", "BS"), ("BIS", "BS"), ("BBS", "IS"), ("BMS", "B"), ("BSB", "S")]
        pk_b = [("BS", "B"), ("BBS", "B"), ("BS", "BS"), ("BIS", "S"), ("BBS", "BS"), ("BSS", "B"), ("BMS", "B")]
        c10 = ["BSS", "BBS", "BIS", "BSM", "BBSS", "BSBS", "BISS"]
    for p, k in pk:
        for m in METHODS:
            js.append({"for": "C09", "form": "a", "p": p, "k": k, "schedule": {"2020": m}, "years": [2020]})
    for m in ("lifo", "hifo"):
        # a preferred lot bought between two disposals of the prefix, then any later lot
        js.append({"for": "C09", "form": "a", "p": "BSBS", "k": "B", "schedule": {"2020": m}, "years": [2020]})
    for m in ("lifo", "hifo") if tier == "quick" else ("lifo", "hifo", "lofo"):
        # many disposals drawing on the same two lots, then a later lot: candidate-set bookkeeping that depends on the number of lots
        js.append({"for": "C09", "form": "a", "p": "BBSSSSS", "k": "B" if tier == "quick" else "BB", "schedule": {"2020": m}, "years": [2020], "strict": True})
    for p, k in pk[:3]:
        for m1, m2 in (("fifo", "hifo"), ("hifo", "lifo"), ("lifo", "fifo"), ("lofo", "hifo")):
            js.append({"for": "C09", "form": "a", "p": p, "k": k, "schedule": {"2020": m1, "2021": m2}, "years": [2020, 2021]})
    for p, k in pk_b:
        for m in METHODS:
            js.append({"for": "C09", "form": "b", "p": p, "k": k, "schedule": {"2020": m}, "years": [2020, 2021]})
    for code in c10:
        for m in ("fifo", "hifo") if tier == "quick" else METHODS:
            js.append({"for": "C10", "code": code, "schedule": {"2020": m}, "years": [2020, 2021]})
    # UTC offsets.  C09a has no date filter: an own symbolic offset per transaction.  C09b / C10 compare calendar dates with the
    # filter dates: one symbolic offset shared by all transactions (with different offsets inside one history local dates are
    # not monotone in the instant, which the iterators' early exit relies on - outside the claim, see DESIGN.md).
    for p, k in [("BS", "BS"), ("BBS", "S"), ("BSS", "B")] if tier == "quick" else [("BS", "BS"), ("BBS", "S"), ("BSS", "B"), ("BBS", "BS"), ("BIS", "S")]:
        for m in ("fifo", "lifo") if tier == "quick" else METHODS:
            js.append({"for": "C09", "form": "a", "p": p, "k": k, "schedule": {"2020": m}, "years": [2020], "off": "each"})
    for p, k in [("BS", "B"), ("BBS", "B")]:
        for m in ("fifo", "lifo"):
            js.append({"for": "C09", "form": "b", "p": p, "k": k, "schedule": {"2020": m}, "years": [2020, 2021], "off": "shared"})
    for code in ["BSS", "BIS"] if tier == "quick" else ["BSS", "BIS", "BBS", "BSM"]:
        js.append({"for": "C10", "code": code, "schedule": {"2020": "fifo"}, "years": [2020, 2021], "off": "shared"})
    return js


def select(prop, spec):
    return spec["for"] == prop


def describe(spec):
    sch = ",".join("%s:%s" % kv for kv in sorted(spec["schedule"].items()))
    o = " offset=" + spec["off"] if spec.get("off") else ""
    if spec["for"] == "C09":
        return "C09%s %s++%s %s%s" % (spec["form"], spec["p"], spec["k"], sch, o)
    return "C10 %s %s%s" % (spec["code"], sch, o)


def weight(spec):
    if spec["for"] == "C09":
        return (len(spec["p"]) + len(spec["k"])) * 10 + (4 if spec["form"] == "b" else 0) + (2 if "hifo" in spec["schedule"].values() or "lofo" in spec["schedule"].values() else 0)
    return len(spec["code"]) * 10 + 8


def bounds(tier):
    return {
        "C09a": "prefix P of 2-3 (one job: 4) transactions, continuation K of 1-2, all of K strictly after all of P; 4 methods and selected two-year schedules; rows numbered as in a sheet with stacked tables, so that the continuation renumbers the rows of P; plus 2 lots and 5 disposals (instants strictly increasing) followed by 1-2 later lots, heap-based methods",
        "C09b": "same histories with a symbolic to_date, date(last of P) <= to_date < date(first of K), 2-year window",
        "C10": "histories of %s transactions in a 2-year window, symbolic from_date <= to_date anywhere from 2019-12-30 to 2022-01-01 (on/before/after/between transaction dates, empty windows)" % ("3" if tier == "quick" else "3-4"),
        "amounts": "k*1e-11 in [1e-11, 1e9]",
        "prices": "k*1e-4 in [1e-4, 1e6]",
        "utc_offsets": "jobs marked offset=each (C09a): an own symbolic offset per transaction; offset=shared (C09b, C10): one symbolic offset for all; otherwise UTC",
        "outside": ["date filters combined with different UTC offsets inside one history (the iterators' early exit assumes local dates monotone in the instant)", "longer histories"],
    }


def assumptions():
    return ["allow_negative_balances=True", "date-filtered runs use one UTC offset for the whole history (0 or symbolic)", "the compared quantities are read from ComputedData (gain/loss set and its fraction numbering, yearly list, balances, average price, filtered transaction sets)"]


def snapshot(S, cd, rows=None, rowmap=None):
    """comparable view of a ComputedData; rows: restrict gain/loss entries to events with these rows;
    rowmap: translate sheet rows into slot numbers (the two runs of C09 number their rows differently)"""
    gls = cd.gain_loss_set
    tr_ = (lambda r: r) if rowmap is None else (lambda r: rowmap[r])
    snap = {"in": [tr_(t.row) for t in cd.in_transaction_set], "out": [tr_(t.row) for t in cd.out_transaction_set], "intra": [tr_(t.row) for t in cd.intra_transaction_set], "taxable": [tr_(t.row) for t in cd.taxable_event_set]}
    gl = []
    for g in gls:
        if rows is not None and g.taxable_event.row not in rows:
            continue
        lot = g.acquired_lot
        gl.append(
            {
                "id": (tr_(g.taxable_event.row), tr_(lot.row) if lot is not None else None),
                "long": bool(g.is_long_term_capital_gains()),
                "num": (
                    gls.get_taxable_event_fraction(g),
                    gls.get_taxable_event_number_of_fractions(g.taxable_event),
                    gls.get_acquired_lot_fraction(g) if lot is not None else None,
                    gls.get_acquired_lot_number_of_fractions(lot) if lot is not None else None,
                ),
                "fig": (S.ex(g.crypto_amount), S.ex(g.taxable_event_fiat_amount_with_fee_fraction), S.ex(g.fiat_cost_basis), S.ex(g.fiat_gain)),
            }
        )
    snap["gl"] = gl
    snap["yearly"] = {(y.year, y.transaction_type.name, y.is_long_term_capital_gains): (S.ex(y.crypto_amount), S.ex(y.fiat_amount), S.ex(y.fiat_cost_basis), S.ex(y.fiat_gain_loss)) for y in cd.yearly_gain_loss_list}
    snap["balances"] = [((b.exchange, b.holder), (S.ex(b.final_balance), S.ex(b.acquired_balance), S.ex(b.sent_balance), S.ex(b.received_balance))) for b in cd.balance_set]
    snap["ppu"] = S.ex(cd.price_per_unit)
    return snap


def same_gl(S, prop, what, a, b, numbering=True):
    S.expect([g["id"] for g in a] == [g["id"] for g in b], prop, what + "-pairing", "event/lot pairing differs: %s vs %s" % ([g["id"] for g in a], [g["id"] for g in b]))
    for x, y in zip(a, b):
        S.expect(x["long"] == y["long"], prop, what + "-long", "long/short flag of fraction %s" % (x["id"],))
        for u, v, nm in zip(x["fig"], y["fig"], ("amount", "proceeds", "cost", "gain")):
            S.expect(S.eq(u, v), prop, what + "-" + nm, "%s of fraction %s differs" % (nm, x["id"]))
        if numbering:
            S.expect(x["num"] == y["num"], prop, what + "-numbering", "fraction numbering of %s: %s vs %s" % (x["id"], x["num"], y["num"]))


def same_map(S, prop, what, a, b):
    S.expect(sorted(a.keys()) == sorted(b.keys()), prop, what + "-keys", "%s vs %s" % (sorted(a.keys()), sorted(b.keys())))
    for k in a:
        for u, v in zip(a[k], b[k]):
            S.expect(S.eq(u, v), prop, what + "-value", "entry %s differs" % (k,))


def run(S, spec):
    from rp2.rp2_error import RP2ValueError  # pylint: disable=import-outside-toplevel

    years = spec["years"]
    S.set_years(years)
    if spec["for"] == "C09":
        return run_c09(S, spec, RP2ValueError)
    return run_c10(S, spec, RP2ValueError)


def _sheet_rows(slots):
    """row numbers as in a sheet with the IN, OUT and INTRA tables stacked (first data row = 8): adding a later lot at the
    bottom of the IN table moves every out- and intra-row down, also across the 9 -> 10 digit boundary"""
    order = [i for i, s in enumerate(slots) if s["table"] == "IN"] + [i for i, s in enumerate(slots) if s["table"] == "OUT"] + [i for i, s in enumerate(slots) if s["table"] == "INTRA"]
    return {i: 8 + pos for pos, i in enumerate(order)}


def run_c09(S, spec, RP2ValueError):
    years = spec["years"]
    np_ = len(spec["p"])
    base = slots_of(spec["p"] + spec["k"])
    rw = _sheet_rows(base)
    rp = _sheet_rows(base[:np_])
    slots = [dict(s, row=rw[i]) for i, s in enumerate(base)]
    if spec.get("off") == "shared":
        h = Hist(S, slots, years, shared_off=S.int("off", -720, 840), shared_sym=True)
    else:
        h = Hist(S, slots, years, tz=spec.get("off") == "each")
    S.assume_cmp(h.t[np_ - 1], "<", h.t[np_])
    if spec.get("strict"):
        for i in range(1, len(slots)):
            S.assume_cmp(h.t[i - 1], "<", h.t[i])
    hp = Hist.__new__(Hist)
    hp.__dict__.update(h.__dict__)
    hp.slots = [dict(s, row=rp[i]) for i, s in enumerate(base[:np_])]
    hp.txs = [None] * np_
    mp = {r: i for i, r in rp.items()}
    mw = {r: i for i, r in rw.items()}
    cfg = make_cfg("us", allow_negative=True)
    try:
        cda = run_tax(cfg, spec["schedule"], hp.build(cfg))
    except RP2ValueError:
        return "error-prefix"
    prows = set(range(np_))
    sa = snapshot(S, cda, rowmap=mp)
    if spec["form"] == "a":
        try:
            cdb = run_tax(cfg, spec["schedule"], h.build(cfg))
        except RP2ValueError as e:
            # the continuation may over-spend; the prefix must then still have been fine, nothing else to compare
            S.expect("Total in-transaction crypto value" in str(e), "C09", "other-error", str(e)[:200])
            return "error-whole"
        gb = [g for g in snapshot(S, cdb, rowmap=mw)["gl"] if g["id"][0] in prows]
        # numbering: the event-side numbering of P's events must be unchanged (lot-side totals may grow: later sales of the same lot)
        same_gl(S, "C09", "prefix", sa["gl"], gb, numbering=False)
        for x, y in zip(sa["gl"], gb):
            S.expect(x["num"][:2] == y["num"][:2] and x["num"][2] == y["num"][2], "C09", "prefix-numbering", "numbering of fraction %s changed: %s vs %s" % (x["id"], x["num"], y["num"]))
        # yearly lines of years closed before the continuation starts
        first_k_year = min(h.txs[i].timestamp.year for i in range(np_, len(slots)))
        ya = {k: v for k, v in sa["yearly"].items() if k[0] < first_k_year}
        yb = {(y.year, y.transaction_type.name, y.is_long_term_capital_gains): (S.ex(y.crypto_amount), S.ex(y.fiat_amount), S.ex(y.fiat_cost_basis), S.ex(y.fiat_gain_loss)) for y in cdb.yearly_gain_loss_list if y.year < first_k_year}
        same_map(S, "C09", "closed-years", ya, yb)
        S.observe("prefix-fractions", [(g["id"], g["fig"][0]) for g in sa["gl"]])
        S.note("prefix-fractions", len(sa["gl"]))
        return "ok"
    # form b: to_date between the two parts
    lo = date(years[0], 1, 1).toordinal()
    hi = date(years[-1], 12, 31).toordinal()
    to_ord = S.int("to", lo, hi)
    to_date = S.date(to_ord)
    hp_last = hp.txs[np_ - 1].timestamp.date()
    S.assume(not hp_last > to_date)
    cfgc = make_cfg("us", allow_negative=True, to_date=to_date)
    inp = h.build(cfgc)
    S.assume(h.txs[np_].timestamp.date() > to_date)
    try:
        cdc = run_tax(cfgc, spec["schedule"], inp)
    except RP2ValueError as e:
        S.expect("Total in-transaction crypto value" in str(e), "C09", "other-error", str(e)[:200])
        return "error-whole"
    sc = snapshot(S, cdc, rowmap=mw)
    for k in ("in", "out", "intra", "taxable"):
        S.expect(sa[k] == sc[k], "C09", "todate-" + k, "%s rows: truncated %s vs to_date %s" % (k, sa[k], sc[k]))
    same_gl(S, "C09", "todate", sa["gl"], sc["gl"], numbering=True)
    same_map(S, "C09", "todate-yearly", sa["yearly"], sc["yearly"])
    same_map(S, "C09", "todate-balances", dict(sa["balances"]), dict(sc["balances"]))
    S.expect(S.eq(sa["ppu"], sc["ppu"]), "C09", "todate-average-price", "average price differs between the truncated run and the to_date run")
    S.observe("fractions", [(g["id"], g["fig"][0]) for g in sa["gl"]])
    return "ok"


def snapshot_gl_only(S, cd):
    return snapshot(S, cd)["gl"]


def run_c10(S, spec, RP2ValueError):
    years = spec["years"]
    h = Hist(S, slots_of(spec["code"]), years, shared_off=S.int("off", -720, 840) if spec.get("off") == "shared" else None, shared_sym=spec.get("off") == "shared")
    n = len(h.slots)
    lo = date(years[0], 1, 1).toordinal() - 2
    hi = date(years[-1], 12, 31).toordinal() + 1
    from_ord = S.int("from", lo, hi)
    to_ord = S.int("to", lo, hi)
    S.assume_cmp(from_ord, "<=", to_ord)
    from_date, to_date = S.date(from_ord), S.date(to_ord)
    cfgu = make_cfg("us", allow_negative=True)
    cfgt = make_cfg("us", allow_negative=True, to_date=to_date)
    cfgf = make_cfg("us", allow_negative=True, from_date=from_date, to_date=to_date)
    try:
        cdu = run_tax(cfgu, spec["schedule"], h.build(cfgu))
    except RP2ValueError:
        return "error"
    cdt = run_tax(cfgt, spec["schedule"], h.build(cfgt))
    cdf = run_tax(cfgf, spec["schedule"], h.build(cfgf))
    txs = h.txs
    row2slot = {h.row(i): i for i in range(n)}

    def in_window(i):
        d = txs[i].timestamp.date()
        return (not d < from_date) and (not d > to_date)

    win = [in_window(i) for i in range(n)]
    su, st, sf = snapshot(S, cdu, rows=set()), snapshot(S, cdt), snapshot(S, cdf)
    su_gl = []
    gls = cdu.gain_loss_set
    for g in gls:
        lot = g.acquired_lot
        su_gl.append({"id": (g.taxable_event.row, lot.row if lot is not None else None), "long": bool(g.is_long_term_capital_gains()), "num": (gls.get_taxable_event_fraction(g), gls.get_taxable_event_number_of_fractions(g.taxable_event), gls.get_acquired_lot_fraction(g) if lot is not None else None, gls.get_acquired_lot_number_of_fractions(lot) if lot is not None else None), "fig": (S.ex(g.crypto_amount), S.ex(g.taxable_event_fiat_amount_with_fee_fraction), S.ex(g.fiat_cost_basis), S.ex(g.fiat_gain))})
    # shown transactions = exactly those whose own date lies in the window, in the unfiltered order
    for k in ("in", "out", "intra", "taxable"):
        want = [r for r in su[k] if win[row2slot[r]]]
        S.expect(sf[k] == want, "C10", "shown-" + k, "%s rows shown %s, expected %s" % (k, sf[k], want))
    want_gl = [g for g in su_gl if win[row2slot[g["id"][0]]]]
    same_gl(S, "C10", "shown", sf["gl"], want_gl, numbering=False)
    # fraction numbering, balances, average price: as in the run with only the to_date
    st_by_id = {g["id"]: g for g in st["gl"]}
    for g in sf["gl"]:
        S.expect(g["id"] in st_by_id and g["num"] == st_by_id[g["id"]]["num"], "C10", "numbering", "fraction numbering of %s depends on the from_date" % (g["id"],))
    same_map(S, "C10", "balances", dict(sf["balances"]), dict(st["balances"]))
    S.expect(S.eq(sf["ppu"], st["ppu"]), "C10", "average-price")
    upto_in = [i for i in range(n) if h.is_lot(i) and not txs[i].timestamp.date() > to_date]
    if upto_in:
        want_ppu = sum(S.ex(txs[i].fiat_in_with_fee) for i in upto_in) / sum(S.ex(txs[i].crypto_in) for i in upto_in)
    else:
        want_ppu = S.ex_int(0)
    S.expect(S.eq(sf["ppu"], want_ppu), "C10", "average-price-upto", "average price does not reflect the acquisitions up to the to_date")
    from_year = from_date.year
    same_map(S, "C10", "yearly", sf["yearly"], {k: v for k, v in st["yearly"].items() if k[0] >= from_year})
    # and the to_date-only run shows the unfiltered entries dated up to the to_date, with identical figures
    upto = [g for g in su_gl if not txs[row2slot[g["id"][0]]].timestamp.date() > to_date]
    same_gl(S, "C10", "todate", st["gl"], upto, numbering=False)
    # fraction counts reflect the history up to the to_date: an event dated up to it keeps all its fractions; a lot counts
    # only the fractions taken by events dated up to it, numbered in the unfiltered order
    for g, u in zip(st["gl"], upto):
        want_num = (u["num"][0], u["num"][1], None, None)
        if u["id"][1] is not None:
            mine = sorted(x["num"][2] for x in upto if x["id"][1] == u["id"][1])
            want_num = (u["num"][0], u["num"][1], mine.index(u["num"][2]), len(mine))
        S.expect(g["num"] == want_num, "C10", "numbering-upto", "fraction %s is numbered %s under the to_date, history up to it gives %s" % (g["id"], g["num"], want_num))
    S.observe("shown", [g["id"] for g in sf["gl"]])
    S.observe("figures", [g["fig"] for g in sf["gl"]])
    S.note("shown-fractions", len(sf["gl"]))
    S.note("hidden-fractions", len(su_gl) - len(sf["gl"]))
    return "ok"
