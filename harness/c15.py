"""C15 open-positions report matches balances and the cost of unsold lot parts.

Unit driven: compute_tax for two assets (no from_date) + rp2.plugin.report.open_positions.Generator().generate on real
ezodf, observed at _fill_cell.  Symbolic: amounts, prices, fees, instants, to_date.  Enumerated: skeletons, the
(exchange, holder) account of every slot, method.
Oracle (exact rational arithmetic over the inputs and the gain/loss fractions): unrealized cost of an asset =
sum over lots of cost-with-fee x (1 - consumed / acquired); per-unit = unrealized / total balance; holder and
(holder, exchange) rows = the accounts with a positive final balance, each once; weights add up to 1;
realized cost (detail) + unrealized = total cost of everything acquired.
"""
from datetime import date

from . import reportlib
from .common import Hist, make_cfg, method_tree, slot

PROPS = ("C15",)
BUDGET = {"quick": 900, "thorough": 1500}
CHUNK = 40
ACC = {"a": ("X1", "H1"), "b": ("X1", "H2"), "c": ("X2", "H1"), "d": ("X2", "H2")}
KINDS = {"B": ("IN", "BUY"), "I": ("IN", "INTEREST"), "S": ("OUT", "SELL"), "M": ("INTRA", "MOVE"), "G": ("OUT", "GIFT")}


def jobs(tier):
    js = []

    def add(h1, h2, method="fifo", todate=False, lotfee=False):
        js.append({"h1": h1, "h2": h2, "method": method, "todate": todate, "lotfee": lotfee})

    # history = list of (kind, account[, to-account]) per asset
    add("Ba Sa", "Bd")
    add("Ba Sa", "Bd", lotfee=True)  # the lot carries a fiat fee: it is part of the cost of the unsold part
    add("Ba Sa", "Bd", lotfee="total")  # the lot carries the exchange's own total (fiat_in_with_fee), unrelated to amount x price
    add("Ba Bb Bc", "Bd")  # one holder on two exchanges that sort around another holder's exchange
    add("Ba Bd Sa", "Ba")
    add("Ba Mad Sd", "Bb")
    add("Ba Ib Sa", "Bc")
    add("Ba Bd Sa", "Bd", method="lifo")
    add("Ba Sa", "Bd", todate=True)
    add("Ba Sa", "Ba Sa")  # an asset may end up fully sold
    if tier == "thorough":
        add("Ba Bc Sa", "Bd", method="lifo")  # one holder on two exchanges with a partly consumed lot: non-linear path conditions, slow queries
        add("Ba Bc Sa", "Bd", method="hifo")
        add("Ba Sa Ba Sa", "Bd", method="lifo")  # the first lot is consumed in two separate runs (non-adjacent fractions); very slow queries
        add("Ba Bb Bc Sa", "Bd")
        add("Ba Mad Sd", "Bb", todate=True)
        add("Ba Bc Sa", "Bd Sd", method="lifo")
        add("Ba Bd Sa Sd", "Ba")
        add("Ba Ga Sa", "Bd")
        add("Ba Mab Mbc", "Bd")
    return js


def describe(spec):
    return "B1=[%s] B2=[%s] %s%s%s" % (spec["h1"], spec["h2"], spec["method"], " to_date" if spec["todate"] else "", " lot-total" if spec.get("lotfee") == "total" else " lot-fee" if spec.get("lotfee") else "")


def weight(spec):
    return len(spec["h1"]) + len(spec["h2"]) + (10 if spec["todate"] else 0)


def bounds(tier):
    return {"assets": 2, "accounts": "2 exchanges x 2 holders", "history": "1-3 transactions per asset" if tier == "quick" else "1-4 transactions per asset", "to_date": "none, or any date from 2019-12-30 to 2021-01-01", "amounts": "k*1e-11 in [1e-11, 1e9]", "prices": "k*1e-4 in [1e-2, 1e6] (an unconsumed lot part then costs at least 1e-13, the resolution at which rp2 decides whether a lot still has cost)", "outside": ["runs with a from_date (the property excludes them)", "overdrawn accounts (paths rejected by the balance guard are not inspected)", "spreadsheet formulas (their text is not evaluated)", "the .ods bytes"]}


def assumptions():
    return ["allow_negative_balances=False: histories that overdraw an account are rejected by rp2 and not inspected", "exact rational arithmetic on both sides; on real code (replay) the figures are compared with a tolerance of 1e-22 relative to the total cost the unrealized cost is derived from: rp2 computes cost x (1 - sold fraction), and for an almost completely sold lot the 31-digit rounding of the sold fraction is an absolute error of 1e-31 x cost, not a relative one", "sheet names 'Asset', 'Asset - Exchange' (the generator addresses them literally)"]


def _parse(text, asset, lotfee=False):
    slots = []
    for i, tok in enumerate(text.split()):
        table, typ = KINDS[tok[0]]
        # disposals carry a crypto fee >= 0; in the lot-fee job the first acquisition carries a fiat fee >= 0 (part of the lot's
        # cost) - a fee on every lot of every job made the non-linear queries too slow
        s = slot(table, typ, asset=asset, fee="any" if tok[0] in "SMG" or (lotfee and i == 0 and table == "IN") else "none")
        s["ex"], s["ho"] = ACC[tok[1]]
        if tok[0] == "M":
            s["ex2"], s["ho2"] = ACC[tok[2]]
        s["row"] = 10 + i
        if lotfee == "total" and i == 0 and table == "IN":
            s["wf"] = True
        slots.append(s)
    return slots


def run(S, spec):
    from rp2.accounting_engine import AccountingEngine  # pylint: disable=import-outside-toplevel
    from rp2.rp2_error import RP2ValueError  # pylint: disable=import-outside-toplevel
    from rp2.tax_engine import compute_tax  # pylint: disable=import-outside-toplevel

    S.set_years([2020])
    h = {"B1": Hist(S, _parse(spec["h1"], "B1", spec.get("lotfee")), [2020], prefix="x", price_min=100), "B2": Hist(S, _parse(spec["h2"], "B2"), [2020], prefix="y", price_min=100)}
    if h["B1"].w:
        # large enough for any unsold part (>= 1e-20 of the lot) to cost more than the 1e-13 at which rp2 compares
        S.assume_cmp(h["B1"].w[0], ">=", 10**11)
    to_date = None
    if spec["todate"]:
        to_date = S.date(S.int("to", date(2019, 12, 30).toordinal(), date(2021, 1, 1).toordinal()))
    cfg = make_cfg("us", to_date=to_date, allow_negative=False)
    engine = AccountingEngine(method_tree({"2020": spec["method"]}))
    cds = {}
    for asset in ("B1", "B2"):
        try:
            cds[asset] = compute_tax(cfg, engine, h[asset].build(cfg, asset))
        except RP2ValueError:
            return "rejected"
    import importlib  # pylint: disable=import-outside-toplevel

    m = importlib.import_module("rp2.plugin.report.open_positions")
    for _k, v in list(vars(m.Generator).items()):
        if isinstance(v, dict):
            v.clear()
    rec, err = reportlib.generate(S, "open_positions", cfg.country, cds, {1970: spec["method"]}, cfg.from_date, cfg.to_date, lang="en")
    if err is not None:
        S.fail("C15", "generator-exception", "%s: %s" % (type(err).__name__, str(err)[:200]), tag=type(err).__name__)
    # ---- oracle
    unreal, total_cost, realized, pos_bal = {}, {}, {}, {}
    for asset, cd in cds.items():
        consumed = {}
        real = 0
        for g in cd.gain_loss_set:
            if g.acquired_lot is not None:
                consumed[g.acquired_lot.row] = consumed.get(g.acquired_lot.row, 0) + S.ex(g.crypto_amount)
                real = real + S.ex(g.fiat_cost_basis)
        u = 0
        tc = 0
        for lot in cd.in_transaction_set:
            w = S.ex(lot.fiat_in_with_fee)
            tc = tc + w
            u = u + w * (1 - consumed.get(lot.row, 0) / S.ex(lot.crypto_in))
        unreal[asset], total_cost[asset], realized[asset] = u, tc, real
        S.expect(S.eq(real + u, tc, scale=tc), "C15", "realized-plus-unrealized", "%s: realized cost basis of the detail + unrealized cost != total cost of everything acquired" % asset)
        pos_bal[asset] = [(b.holder, b.exchange, S.ex(b.final_balance)) for b in cd.balance_set if S.ex(b.final_balance) > 0]
    # prices are >= 0.01, so an unconsumed lot part (>= 1e-11) costs >= 1e-13: above the 13 decimals at which rp2 compares
    listed = [a for a in cds if unreal[a] > 0]
    grand = sum(unreal[a] for a in listed)
    rows = rec.rows("Asset")
    data = [r for r in sorted(rows) if r >= 3 and rows[r].get(0) in cds]
    seen = set()
    weight_sum = 0
    per_asset_cost = {}
    for r in data:
        c = rows[r]
        asset, holder = c.get(0), c.get(1)
        what = "Asset sheet row %d (%s, %s)" % (r + 1, asset, holder)
        S.expect((asset, holder) not in seen, "C15", "listed-twice", what)
        seen.add((asset, holder))
        S.expect(asset in listed, "C15", "listed-without-holding", what)
        bal = sum(x for hh, _e, x in pos_bal[asset] if hh == holder)
        S.expect(any(hh == holder for hh, _e, _x in pos_bal[asset]), "C15", "holder-without-balance", what)
        total_bal = sum(x for _h, _e, x in pos_bal[asset])
        S.expect(S.eq(S.ex(c.get(2)), bal), "C15", "holder-balance", "%s: crypto balance differs from the computed balance" % what)
        S.expect(S.eq(S.ex(c.get(3)), unreal[asset] / total_bal, scale=total_cost[asset] / total_bal), "C15", "per-unit-cost", "%s: per-unit cost is not unrealized cost / total balance" % what)
        S.expect(S.eq(S.ex(c.get(4)), unreal[asset] * bal / total_bal, scale=total_cost[asset]), "C15", "holder-cost", what)
        S.expect(S.eq(S.ex(c.get(5)), unreal[asset] * bal / total_bal / grand, scale=sum(total_cost.values()) / grand), "C15", "weight", what)
        weight_sum = weight_sum + S.ex(c.get(5))
        per_asset_cost[asset] = per_asset_cost.get(asset, 0) + S.ex(c.get(4))
    for asset in listed:
        for holder in sorted({hh for hh, _e, _x in pos_bal[asset]}):
            S.expect((asset, holder) in seen, "C15", "holder-missing", "holder %s with a positive %s balance is not listed on the Asset sheet" % (holder, asset))
        S.expect(S.eq(per_asset_cost.get(asset, 0), unreal[asset], scale=total_cost[asset]), "C15", "unrealized-cost", "%s: the holders' cost bases do not add up to the cost of the unconsumed lot parts" % asset)
    if listed:
        S.expect(S.eq(weight_sum, 1, scale=sum(total_cost.values()) / grand), "C15", "weights", "cost-basis weights of the Asset sheet do not add up to 100%")
    # ---- Asset - Exchange sheet
    rows = rec.rows("Asset - Exchange")
    data = [r for r in sorted(rows) if r >= 3 and rows[r].get(0) in cds]
    seen2 = set()
    weight_sum = 0
    for r in data:
        c = rows[r]
        asset, holder, exch = c.get(0), c.get(1), c.get(2)
        what = "Asset - Exchange row %d (%s, %s, %s)" % (r + 1, asset, holder, exch)
        S.expect((asset, holder, exch) not in seen2, "C15", "listed-twice", what)
        seen2.add((asset, holder, exch))
        S.expect(asset in listed, "C15", "listed-without-holding", what)
        match = [x for hh, e, x in pos_bal[asset] if (hh, e) == (holder, exch)]
        S.expect(len(match) == 1, "C15", "account-without-balance", what)
        total_bal = sum(x for _h, _e, x in pos_bal[asset])
        S.expect(S.eq(S.ex(c.get(3)), match[0]), "C15", "account-balance", "%s: crypto balance differs from the computed balance" % what)
        S.expect(S.eq(S.ex(c.get(4)), unreal[asset] / total_bal, scale=total_cost[asset] / total_bal), "C15", "per-unit-cost", what)
        S.expect(S.eq(S.ex(c.get(5)), unreal[asset] * match[0] / total_bal, scale=total_cost[asset]), "C15", "account-cost", what)
        weight_sum = weight_sum + S.ex(c.get(6))
    for asset in listed:
        for hh, e, _x in pos_bal[asset]:
            S.expect((asset, hh, e) in seen2, "C15", "account-missing", "account %s/%s with a positive %s balance is not listed on the Asset - Exchange sheet" % (e, hh, asset))
    if listed:
        S.expect(S.eq(weight_sum, 1, scale=sum(total_cost.values()) / grand), "C15", "weights", "cost-basis weights of the Asset - Exchange sheet do not add up to 100%")
    S.observe("listed", sorted(seen))
    S.observe("accounts", sorted(seen2))
    S.note("rows", len(seen) + len(seen2))
    return "ok"
