"""C05 long-term vs short-term follows the holding period.

Unit driven: real InTransaction / OutTransaction / IntraTransaction / GainLoss constructors and
GainLoss.is_long_term_capital_gains() with the real country plugins (US, ES, JP, IE, Generic).
Symbolic: both instants (1970..9999, microsecond resolution), both UTC offsets (whole minutes, -12:00..+14:00),
the generic plugin's period P >= 0.  Loop-free: the verdict is for all instants in range.
"""
import os

from symx.api import us_of

from .common import make_cfg

PROPS = ("C05",)
DAY = 86400 * 10**6
T_LO = us_of(1970, 1, 2)
T_HI = us_of(9999, 12, 30)
PERIODS = {"us": 365, "es": 365, "jp": None, "ie": None}
BUDGET = {"quick": 300, "thorough": 1500}

ENV_TABLE = [
    ("0", 0),
    ("365", 365),
    (" 12 ", 12),
    ("+7", 7),
    ("00030", 30),
    ("-1", "error"),
    ("abc", "error"),
    ("", "error"),
    ("1e3", "error"),
    ("3.5", "error"),
    ("0x10", "error"),
]


def jobs(tier):
    js = []
    for c in ("us", "es", "jp", "ie", "generic"):
        for ev in ("SELL", "MOVE"):
            js.append({"country": c, "event": ev})
        js.append({"country": c, "event": "EARN"})
        # every other disposal type (a staking loss is a disposal although STAKING is also an earn type) and income type
        if c in ("us", "generic") or tier == "thorough":
            for typ in ("GIFT", "DONATE", "FEE", "LOST", "STAKING"):
                js.append({"country": c, "event": "SELL", "type": typ})
            for typ in ("AIRDROP", "HARDFORK", "INCOME", "MINING", "STAKING", "WAGES"):
                js.append({"country": c, "event": "EARN", "type": typ})
    js.append({"country": "generic", "event": "ENV"})
    # one disposal spanning several lots: every fraction is classified on its own (real compute_tax, symbolic instants)
    for m in ("fifo", "lifo", "hifo"):
        js.append({"country": "generic", "event": "MULTI", "method": m, "code": "BBS"})
    js.append({"country": "generic", "event": "MULTI", "method": "lifo", "code": "BBSS" if tier == "thorough" else "BSS"})
    return js


def describe(spec):
    return "%s %s%s%s" % (spec["country"], spec["event"], ":" + spec["type"] if spec.get("type") else "", " %s %s" % (spec["code"], spec["method"]) if spec["event"] == "MULTI" else "")


def bounds(tier):
    return {"instants": "1970-01-02 .. 9999-12-30 UTC, microseconds", "utc_offsets_minutes": [-720, 840], "generic_period_days": [0, 10**7], "countries": ["us", "es", "jp", "ie", "generic"], "events": ["SELL", "MOVE (transfer fee)", "INTEREST", "us and generic%s: also GIFT, DONATE, FEE, LOST, STAKING out-transactions and AIRDROP, HARDFORK, INCOME, MINING, STAKING, WAGES in-transactions" % ("" if tier == "quick" else " (thorough: every country)")], "loop_free": True, "multi_lot": "jobs MULTI: real compute_tax on BBS / BSS (thorough BBSS) with an own symbolic instant and UTC offset per transaction inside 2020, generic plugin with a 2-day period, fifo/lifo/hifo: every fraction must carry the flag of its own pair of instants"}


def assumptions():
    return ["amounts and prices are concrete (1): the flag does not depend on them", "the generic plugin's parsed period is injected as a symbolic int after the real constructor ran; the env parsing itself is exercised on a concrete table of strings (job 'generic ENV')"]


def run(S, spec):
    from rp2.gain_loss import GainLoss  # pylint: disable=import-outside-toplevel
    from rp2.in_transaction import InTransaction  # pylint: disable=import-outside-toplevel
    from rp2.intra_transaction import IntraTransaction  # pylint: disable=import-outside-toplevel
    from rp2.out_transaction import OutTransaction  # pylint: disable=import-outside-toplevel
    from rp2.rp2_decimal import ZERO, RP2Decimal  # pylint: disable=import-outside-toplevel
    from rp2.rp2_error import RP2ValueError  # pylint: disable=import-outside-toplevel

    country = spec["country"]
    if spec["event"] == "MULTI":
        return run_multi(S, spec)
    if spec["event"] == "ENV":
        from rp2.plugin.country.generic import Generic  # pylint: disable=import-outside-toplevel

        os.environ["CURRENCY_CODE"] = "usd"
        for text, want in ENV_TABLE:
            os.environ["LONG_TERM_CAPITAL_GAINS"] = text
            try:
                got = Generic().get_long_term_capital_gain_period()
            except RP2ValueError:
                got = "error"
            S.expect(got == want, "C05", "generic-env", "LONG_TERM_CAPITAL_GAINS=%r parsed as %r, expected %r" % (text, got, want))
        return "ok"
    period = PERIODS.get(country)
    if country == "generic":
        period = S.int("P", 0, 10**7)
        if S.mode == "sym":
            cfg = make_cfg("generic", period=365)
            setattr(cfg.country, "_Generic__long_term_capital_gain_period", period)
        else:
            cfg = make_cfg("generic", period=period)
    else:
        cfg = make_cfg(country)
    tl = S.int("tl", T_LO, T_HI)
    te = S.int("te", T_LO, T_HI)
    ol = S.int("ol", -720, 840)
    oe = S.int("oe", -720, 840)
    one = RP2Decimal("1")
    if spec["event"] == "EARN":
        ev = InTransaction(cfg, S.ts(te, oe), "B1", "X1", "H1", spec.get("type", "INTEREST"), one, one, fiat_fee=ZERO, row=11)
        g = GainLoss(cfg, one, ev, None)
        S.expect(g.is_long_term_capital_gains() is False, "C05", "earn-long", "an income event was classified long-term")
        return "ok"
    S.assume_cmp(tl, "<=", te)
    lot = InTransaction(cfg, S.ts(tl, ol), "B1", "X1", "H1", "BUY", one, one, fiat_fee=ZERO, row=10)
    if spec["event"] == "SELL":
        typ = spec.get("type", "SELL")
        ev = OutTransaction(cfg, S.ts(te, oe), "B1", "X1", "H1", typ, one, ZERO if typ == "FEE" else one, one if typ == "FEE" else ZERO, row=11)
    else:
        ev = IntraTransaction(cfg, S.ts(te, oe), "B1", "X1", "H1", "X2", "H1", one, RP2Decimal("2"), one, row=11)
    g = GainLoss(cfg, one, ev, lot)
    got = g.is_long_term_capital_gains()
    S.expect(got is True or got is False, "C05", "non-bool")
    if period is None:
        want = False
    else:
        want = bool(te - tl >= period * DAY)
    S.observe("long", got)
    S.expect(got == want, "C05", "flag", "holding %s the threshold but reported %s" % ("reaches" if want else "is below", "LONG" if got else "SHORT"), country=country)
    return "long" if got else "short"


def run_multi(S, spec):
    """every fraction of a multi-lot disposal carries the flag of its own pair of timestamps (period 2 days, 1-year window)"""
    from rp2.rp2_error import RP2ValueError  # pylint: disable=import-outside-toplevel

    from .common import Hist, run_tax, slots_of  # pylint: disable=import-outside-toplevel

    S.set_years([2020])
    h = Hist(S, slots_of(spec["code"]), [2020], tz=True)
    cfg = make_cfg("generic", period=2, allow_negative=True)
    try:
        cd = run_tax(cfg, {"2020": spec["method"]}, h.build(cfg))
    except RP2ValueError:
        return "error"
    row2slot = {h.row(i): i for i in range(len(h.slots))}
    flags = []
    for g in cd.gain_loss_set:
        e = row2slot[g.taxable_event.row]
        got = g.is_long_term_capital_gains()
        if g.acquired_lot is None:
            want = False
        else:
            L = row2slot[g.acquired_lot.row]
            want = bool(h.t[e] - h.t[L] >= 2 * DAY)
        S.expect(got == want, "C05", "fraction-flag", "fraction %d->%s: holding %s 2 days but reported %s" % (e, g.acquired_lot.row if g.acquired_lot is not None else None, "reaches" if want else "is below", "LONG" if got else "SHORT"))
        flags.append((e, got))
    S.observe("flags", flags)
    S.note("fractions", len(flags))
    return "ok"
