"""Regenerates MANIFEST.json from the table below (run: /venv/bin/python tools_manifest.py)."""
import json

TECH = "symbolic execution of the real Python code with z3 (per-path SMT, DFS by re-execution)"
CHECKS = {
    "C01": ("bounded symbolic execution of the real compute_tax / accounting engine / method plugins: for every skeleton of <=3 (selected 4; thorough: all 4, selected 5) transactions, every method and every two-year schedule, z3 decides every branch for all instants (ties), amounts, prices and UTC offsets in range, and the ranking oracle is asserted on every path; exhaustive within the bounds, nothing claimed outside",
            "trusted: z3, the substrate's model of decimal/datetime (validated on every run by replaying sampled path models on the uninstrumented code), CPython; ties between equally ranked lots are left unspecified"),
    "C02": ("same exploration as C01 with the conservation oracles: positive fractions, per-event and per-lot sums, no lot after its event, error iff some disposal is uncovered (order-independent oracle), sell-all twin exhausts every lot; exhaustive within the bounds",
            "trusted: z3, substrate model (validated by trace replay), CPython; allow_negative_balances=True so that only the tax engine's own coverage error is in play"),
    "C03": ("bounded symbolic execution of the real transaction constructors (14 types x IN/OUT tables) and of compute_tax on histories in which each of the 17 (table,type) subjects is inserted at every position of a context history: amounts, prices and fees (zero or not decided by the solver) are symbolic; on every path the taxable-event set and the gain/loss set are compared with the set the property prescribes; exhaustive within the bounds",
            "trusted: z3, substrate model of decimal/datetime (validated by replaying sampled path models on the uninstrumented code), CPython; allow_negative_balances=True"),
    "C05": ("symbolic execution of the real InTransaction/OutTransaction/IntraTransaction/GainLoss constructors and is_long_term_capital_gains with the 5 real country plugins: both instants (1970..9999, microseconds), both UTC offsets and the generic plugin's period are z3 variables; loop-free, so the verdict covers all instants in range",
            "trusted: z3, substrate model of datetime subtraction/.days (validated by trace replay), CPython; generic plugin's env parsing exercised on a concrete table only"),
    "C06": ("bounded symbolic execution of compute_tax -> ComputedData yearly list with symbolic instants (3-year window), amounts, prices, to_date and from_date; on every path each yearly line is compared with oracle sums over the fractions of the unfiltered run grouped by (event year, type, long/short); exhaustive within the bounds",
            "trusted: z3, substrate (validated by trace replay); per-fraction figures are taken from the GainLoss objects (C04/C05 decide those)"),
    "C07": ("bounded symbolic execution of compute_tax -> BalanceSet over every assignment of <=3 (thorough 4) slots to up to 4 accounts (up to renaming), symbolic amounts, fees, instants and to_date: per-account acquired/sent/received/final compared with oracle flow sums and the sum of final balances with the unconsumed lot amounts; exhaustive within the bounds",
            "trusted: z3, substrate (validated by trace replay); per-holder totals of the report sheet are C13's"),
    "C08": ("same exploration as C07 without to_date, -n off and on, rows also in reverse time order: rejected iff an account is overdrawn by more than 1e-10 after all transactions of some instant (must reject, naming the account) / never negative under any same-instant order (must not reject); the band in between is left free; exhaustive within the bounds",
            "trusted: z3, substrate (validated by trace replay); paths on which the tax engine itself rejects the history are C02's"),
    "C09": ("relational bounded symbolic execution: two real compute_tax runs on one symbolic path (prefix P vs P++K with all of K after all of P; run on P vs run on P++K limited by a symbolic to_date between them), every figure about P's events compared; 4 methods and two-year schedules; exhaustive within the bounds",
            "trusted: z3, substrate (validated by trace replay)"),
    "C10": ("relational bounded symbolic execution: unfiltered, to_date-only and from+to runs of the real compute_tax/ComputedData on one symbolic path with symbolic from_date <= to_date; shown sets, figures, numbering, balances, average price and yearly lines compared as the property prescribes; exhaustive within the bounds",
            "trusted: z3, substrate (validated by trace replay)"),
    "C11": ("bounded symbolic execution of the real parse_ods (on a duck-typed document), Configuration (generated .ini) and transaction constructors: numeric cells are arbitrary reals on a 1e-18 grid, timestamp cells arbitrary instants/offsets; ~30 column layouts per table, every combination of empty optional cells, all table orders, blank rows; every parsed field compared with its cell (|diff| <= 0.5e-11), defaults and the artificial fee transaction as documented; exhaustive within the bounds",
            "trusted: z3, substrate ('%.11f' modelled as correctly rounded; validated by trace replay), CPython; ezodf cell typing, ConfigParser and dateutil's text parsing are outside the encoding"),
    "C12": ("bounded symbolic execution of the real parse_ods and constructors under injected faults: numeric fault values quantified by the solver (every v <= -1e-11, zero where non-zero is required, received > sent, both fees), discrete faults at every field position, and every sequence of 5-7 (thorough 8) sheet rows over 8 row kinds explored along the parser's own decisions against an independent well-formedness oracle; exhaustive within the bounds",
            "trusted: z3, substrate (validated by trace replay); malformed .ini, command-line conflicts, exit status and 'no report written' are process-level facts without symbolic input and are outside the claim"),
    "C13": ("bounded symbolic execution of compute_tax for two assets (one shared AccountingEngine, colliding sheet rows) followed by the real rp2_full_report generator on real ezodf and the real templates; every _fill_cell call is recorded with its symbolic value and compared cell by cell: every transaction of the window once and time-sorted with running sums and sold %, every fraction once with amount, proceeds, cost basis, gain, long/short and k/n labels, balances with per-holder totals, average price, yearly lines on the asset sheet and on the Summary, Legend method and filter cells; symbolic amounts, prices, instants, from/to dates; exhaustive within the bounds",
            "trusted: z3, substrate (validated by trace replay incl. real ezodf writing), CPython; float() conversion and the .ods bytes only run in the concrete replay; reference values are ComputedData objects (C01-C10) and the input variables"),
    "C14": ("bounded symbolic execution of compute_tax for two assets followed by the real tax_report_us / tax_report_ie generators: for each of the 14 subject types (6 out, 7 income, transfer with fee) every fraction must be written on exactly one row of the sheet the property assigns to its type, with dates, proceeds, cost basis, gain, LONG/SHORT and labels equal to the computed values, no cell written twice when both assets share a sheet, and the document's final sheet list equal to the sheets that received rows; symbolic amounts, prices, instants, from/to dates; exhaustive within the bounds",
            "trusted: z3, substrate (validated by trace replay), CPython; the type->sheet table is written from the property text"),
    "C15": ("bounded symbolic execution of compute_tax for two assets (2 exchanges x 2 holders, no from_date, optional symbolic to_date) followed by the real open_positions generator: every row of the Asset and Asset - Exchange sheets is compared, in exact rational arithmetic over the inputs and the gain/loss fractions, with the oracle - unrealized cost = sum over lots of cost-with-fee x (1 - consumed/acquired), per-unit = unrealized / total balance, one row per holder / account with a positive final balance carrying the computed balance, weights adding up to 1, realized + unrealized = total cost; exhaustive within the bounds",
            "trusted: z3 (non-linear integer arithmetic for the quantised cost comparisons), substrate in exact-rational mode (validated by trace replay with a 1e-22 relative tolerance), CPython; prices >= 0.01 so that lot remainders are above rp2's 13-decimal comparison resolution"),
    "C16": ("bounded symbolic execution of compute_tax + every generator the country configures (called as rp2_main calls them) for us/generic/es/ie/jp x every accepted method x every shipped language and the country's default language x {none, from, to, from+to} with symbolic filter dates (instants concrete, spanning two years, so that mid-year, empty and year-end windows are all decided by the solver) and symbolic amounts: no path may end in an exception other than the documented JP from+to refusal; exhaustive within the bounds",
            "trusted: z3, substrate (validated by trace replay), CPython; argparse, exit status and files on disk are outside the claim"),
    "C19": ("same exploration and record as C13: every recorded HYPERLINK formula is parsed (sheet and row are concrete parts of the structured string) and must lead to the In-Out row on which that very transaction was written, carry no link when the date filter hides the transaction (which rows are hidden is decided by the solver), and every Summary line must link to the first detail row of that asset-year; exhaustive within the bounds",
            "trusted: z3, substrate (validated by trace replay), CPython"),
    "C20": ("bounded symbolic execution of compute_tax (JP plugin) for two assets followed by the real tax_report_jp generator: the calendar year of every transaction of asset B1 is a solver variable over 2019-2022 realised exhaustively (sparse years, disposal-only years, table order different from year order; also timestamps within hours of New Year at non-UTC offsets), amounts and prices symbolic; the set of asset-year and summary sheets, every transaction row (month, day, client, type, amounts), the opening-balance formulas (must reference the closing cells of the same asset's most recent earlier year sheet, else 0) and the summary lines' references are compared; en and kl; exhaustive within the bounds",
            "trusted: z3, substrate (validated by trace replay), CPython; formulas are checked for what they reference, not evaluated; donations are outside (the generator formats them through float)"),
}
NA = {
    "C18": "about imports and OS-level effects (sockets, processes, files); every relevant input is concrete, so there is nothing for a solver to quantify over - the deciding step would be an import scan / audit hook, which is outside this technique family",
}
PENDING = "check not built yet (work in progress; planned with the same technique, see DESIGN.md section 5)"
ALL = ["C%02d" % i for i in range(1, 21)]


def main():
    checks = []
    for pid, (text, note) in CHECKS.items():
        checks.append({"property_id": pid, "quick_cmd": "./check %s --tier quick" % pid, "thorough_cmd": "./check %s --tier thorough" % pid, "evidence_file": "evidence/%s.json" % pid, "replay_cmd_template": "./check replay {path}", "engine": "symx", "level_claimed": {"category": "model_checking", "text": text, "design_ref": "DESIGN.md 5 %s" % pid}, "level_note": note, "technique": TECH})
    na = [{"property_id": p, "reason": NA.get(p, PENDING)} for p in ALL if p not in CHECKS]
    m = {
        "version": 1,
        "setup_cmd": "./check setup",
        "hooks": {"guard": "none", "enable": "no hooks: the checks load rp2.* from /repo/src through an import hook that rewrites the AST in memory (decimal -> symbolic substrate, f-strings -> structured strings); nothing in /repo is instrumented", "baseline_off_cmd": "cd /repo && /venv/bin/python -m pytest -ra -q -p no:cacheprovider --timeout=900 --continue-on-collection-errors", "source_commits": [], "add_only": True},
        "engines": [{"name": "symx", "path": "symx/", "serves_properties": list(CHECKS), "kind_free_text": "custom symbolic executor for the real rp2 Python modules: proxy value types (Decimal/datetime/date/float/str) over integer polynomials, eager branch decisions with z3 (cvc5 as second opinion), DFS by re-execution, concrete replay on the uninstrumented code"}],
        "checks": checks,
        "not_applicable": na,
        "notes": "fix: commits in /repo (b9ef9cd, 663eb25, df34426, df33c02, 5bbebf1, a192f0f, a566a84, 00c9cfc, 2ebb739) repair defects found by these checks; see known_findings.json and DESIGN.md",
    }
    with open("MANIFEST.json", "w", encoding="utf-8") as f:
        json.dump(m, f, indent=1)


if __name__ == "__main__":
    main()
