"""Integer polynomials over named Int variables, kept as plain Python dicts (fast) with lazy z3 conversion.

A Poly is the numerator of a grid value n / 10**k; all symbolic arithmetic of the substrate is done on these
dicts, and a z3 term is only built when a polynomial takes part in a solver query.
"""
from math import gcd

import z3

_VARS = {}
_Z3CACHE = {}


def zvar(name):
    v = _VARS.get(name)
    if v is None:
        v = _VARS[name] = z3.Int(name)
    return v


class Poly:
    __slots__ = ("m", "_key", "_norm")

    def __init__(self, m):
        self.m = m  # dict: monomial (tuple of var names, sorted) -> int coeff (non-zero)
        self._key = None
        self._norm = None

    @staticmethod
    def const(c):
        return Poly({(): c} if c else {})

    @staticmethod
    def var(name):
        return Poly({(name,): 1})

    @property
    def key(self):
        if self._key is None:
            self._key = tuple(sorted(self.m.items()))
        return self._key

    def is_const(self):
        return not self.m or (len(self.m) == 1 and () in self.m)

    def const_value(self):
        return self.m.get((), 0)

    def is_linear(self):
        return all(len(k) <= 1 for k in self.m)

    def degree(self):
        return max((len(k) for k in self.m), default=0)

    def variables(self):
        s = set()
        for k in self.m:
            s.update(k)
        return s

    def __add__(self, o):
        if isinstance(o, int):
            if not o:
                return self
            o = Poly.const(o)
        r = dict(self.m)
        for k, c in o.m.items():
            v = r.get(k, 0) + c
            if v:
                r[k] = v
            else:
                r.pop(k, None)
        return Poly(r)

    __radd__ = __add__

    def __neg__(self):
        return Poly({k: -c for k, c in self.m.items()})

    def __sub__(self, o):
        if isinstance(o, int):
            o = Poly.const(o)
        return self + (-o)

    def __rsub__(self, o):
        return (-self) + o

    def scale(self, c):
        if c == 0:
            return Poly({})
        if c == 1:
            return self
        return Poly({k: v * c for k, v in self.m.items()})

    def __mul__(self, o):
        if isinstance(o, int):
            return self.scale(o)
        if o.is_const():
            return self.scale(o.const_value())
        if self.is_const():
            return o.scale(self.const_value())
        r = {}
        for k1, c1 in self.m.items():
            for k2, c2 in o.m.items():
                k = tuple(sorted(k1 + k2))
                v = r.get(k, 0) + c1 * c2
                if v:
                    r[k] = v
                else:
                    r.pop(k, None)
        return Poly(r)

    __rmul__ = __mul__

    def eval(self, model):
        s = 0
        for k, c in self.m.items():
            t = c
            for v in k:
                t *= model[v]
            s += t
        return s

    def z3(self):
        e = _Z3CACHE.get(self.key)
        if e is None:
            terms = []
            for k, c in self.key:
                t = None
                for v in k:
                    t = zvar(v) if t is None else t * zvar(v)
                if t is None:
                    terms.append(z3.IntVal(c))
                else:
                    terms.append(t if c == 1 else z3.IntVal(c) * t)
            e = z3.Sum(terms) if len(terms) > 1 else (terms[0] if terms else z3.IntVal(0))
            _Z3CACHE[self.key] = e
        return e

    def normalized(self):
        """(poly, flipped): canonical representative of {c*p : c != 0} - content removed, leading coeff positive."""
        if self._norm is None:
            if not self.m:
                self._norm = (self, False)
            else:
                g = 0
                for c in self.m.values():
                    g = gcd(g, c)
                first = None
                for k, c in self.key:
                    if k != ():
                        first = c
                        break
                if first is None:
                    first = self.key[0][1]
                fl = first < 0
                if g == 1 and not fl:
                    self._norm = (self, False)
                else:
                    d = -g if fl else g
                    self._norm = (Poly({k: c // d for k, c in self.m.items()}), fl)
        return self._norm

    def __repr__(self):
        return "Poly(%s)" % (" + ".join("%d*%s" % (c, "*".join(k) or "1") for k, c in self.key) or "0")
