"""Parallel exploration of a harness's jobs, replay of counterexamples, trace validation, evidence, verdict."""
import importlib
import json
import multiprocessing as mp
import os
import shutil
import subprocess
import sys
import tempfile
import time
import hashlib

VERIF = os.path.dirname(os.path.dirname(os.path.abspath(__file__)))
REAL_PY = "/venv/bin/python"

_W = {}


def _worker_init(harness_name, scratch, mutant):
    os.chdir(scratch)
    sys.setrecursionlimit(10000)
    from . import loader  # pylint: disable=import-outside-toplevel

    if mutant:
        from . import mutants  # pylint: disable=import-outside-toplevel

        loader.MUTATORS.append(mutants.get(mutant))
    loader.install()
    _W["mod"] = importlib.import_module("harness." + harness_name)
    _W["profiled"] = set()


def _worker_task(task):
    from . import engine, loader  # pylint: disable=import-outside-toplevel
    from .api import SymS, plain  # pylint: disable=import-outside-toplevel

    job_index, spec, props, stack, max_paths, timeout_ms, deadline = task
    try:
        return _worker_task_inner(task)
    except BaseException as e:  # pylint: disable=broad-except
        # a BaseException escaping a pool worker kills it and the pool then waits forever for the lost task
        import traceback  # pylint: disable=import-outside-toplevel

        raise RuntimeError("worker failed on job %d: %s: %s\n%s" % (job_index, type(e).__name__, e, traceback.format_exc()[-1500:])) from None


def _worker_task_inner(task):
    from . import engine, loader  # pylint: disable=import-outside-toplevel
    from .api import SymS, plain  # pylint: disable=import-outside-toplevel

    job_index, spec, props, stack, max_paths, timeout_ms, deadline = task
    mod = _W["mod"]
    samples = []
    funcs = set()

    def harness(ctx):
        S = SymS(ctx, props)
        ctx.S = S
        return mod.run(S, spec)

    def on_path(ctx, res):
        # keep the first path of the task and the one with the most decisions (the deepest case): they are re-run on the real code
        if res["status"] in ("ok", "violation") and ctx.model is not None and (len(samples) < 2 or res["decisions"] > samples[-1]["decisions"]):
            try:
                model = dict(ctx.ensure_model())
                smp = {"job": job_index, "model": model, "decisions": res["decisions"], "status": res["status"], "value": res.get("value") if res["status"] == "ok" else [res["prop"], res["kind"]], "obs": plain(ctx.S.observations, model)}
                if len(samples) < 2:
                    samples.append(smp)
                else:
                    samples[-1] = smp
            except BaseException:  # pylint: disable=broad-except
                pass

    prof = None
    if job_index not in _W["profiled"] and stack is None:
        _W["profiled"].add(job_index)
        src = loader.SRC

        def prof(frame, event, arg):  # pylint: disable=unused-argument
            if event == "call":
                fn = frame.f_code.co_filename
                if fn.startswith(src) and frame.f_code.co_name != "<module>":
                    funcs.add("%s:%s" % (fn[len(src) + 1 :], frame.f_code.co_qualname if hasattr(frame.f_code, "co_qualname") else frame.f_code.co_name))

    t0 = time.time()
    if prof is not None:
        # profile only the first path of the job
        res1, left1, st1 = _run(engine, harness, stack, 1, timeout_ms, deadline, on_path, prof)
        res2, left2, st2 = _run(engine, harness, left1, max_paths - 1, timeout_ms, deadline, on_path, None) if left1 else ([], [], engine.new_stats())
        results, leftover = res1 + res2, left2
        stats = st1
        for k, v in st2.items():
            if isinstance(v, (int, float)):
                stats[k] = (max(stats.get(k, 0), v) if k == "max_query_s" else stats.get(k, 0) + v)
    else:
        results, leftover, stats = _run(engine, harness, stack, max_paths, timeout_ms, deadline, on_path, None)
    stats["wall_s"] = time.time() - t0
    slim = []
    for r in results:
        if r["status"] == "ok":
            slim.append({"status": "ok", "value": r.get("value"), "notes": r.get("notes"), "decisions": r["decisions"]})
        else:
            slim.append(r)
    return job_index, slim, leftover, stats, samples, sorted(funcs)


def _run(engine, harness, stack, max_paths, timeout_ms, deadline, on_path, prof):
    if prof is not None:
        sys.setprofile(prof)
    try:
        return engine.explore(harness, stack=stack, max_paths=max_paths, timeout_ms=timeout_ms, deadline=deadline, on_path=on_path)
    finally:
        if prof is not None:
            sys.setprofile(None)


class JobState:
    def __init__(self, spec):
        self.spec = spec
        self.paths = 0
        self.status = {}
        self.notes = {}
        self.stats = {}
        self.pending = 0
        self.violations = []
        self.problems = []
        self.leftover = 0
        self.decisions = 0


def run_check(prop, harness_name, tier, seed=0, budget_s=None, mutant=None, jobs_filter=None, max_workers=None, quiet=False):
    """explore every job of the harness for `prop`; returns a result dict (see finish())"""
    t_start = time.time()
    mod = importlib.import_module("harness." + harness_name)
    specs = mod.jobs(tier)
    if hasattr(mod, "select"):
        specs = [s for s in specs if mod.select(prop, s)]
    if jobs_filter:
        specs = [s for s in specs if jobs_filter(s)]
    props = [prop]
    timeout_ms = 10000 if tier == "quick" else 60000
    if budget_s is None:
        budget_s = getattr(mod, "BUDGET", {}).get(tier, 900 if tier == "quick" else 1500)
    deadline = t_start + budget_s
    chunk = getattr(mod, "CHUNK", 120)
    scratch = tempfile.mkdtemp(prefix="verif-symx-")
    nproc = max_workers or min(16, os.cpu_count() or 4)
    states = [JobState(s) for s in specs]
    samples = []
    funcs = set()
    total = {"queries": 0, "solver_s": 0.0, "paths": 0, "aborted": 0, "decisions": 0}
    order = list(range(len(specs)))
    # heavier jobs first (longer skeletons), then a seed-dependent shuffle inside equal weight - verdicts do not depend on it
    import random  # pylint: disable=import-outside-toplevel

    rnd = random.Random(seed)
    rnd.shuffle(order)
    order.sort(key=lambda i: -getattr(mod, "weight", lambda s: len(str(s)))(specs[i]))
    ctx = mp.get_context("fork")
    harness_error = None
    abandoned = 0
    try:
        with ctx.Pool(nproc, initializer=_worker_init, initargs=(harness_name, scratch, mutant)) as pool:
            pending = []
            last_progress = time.time()
            queue = [(i, None) for i in order]
            inflight = 0
            results_q = []

            owner = {}

            def submit(i, stack):
                nonlocal inflight
                states[i].pending += 1
                inflight += 1
                ar = pool.apply_async(_worker_task, ((i, specs[i], props, stack, chunk, timeout_ms, deadline),))
                pending.append(ar)
                owner[id(ar)] = (i, len(stack) if stack else 1)

            while queue or pending:
                while queue and inflight < nproc * 2:
                    i, stack = queue.pop(0)
                    submit(i, stack)
                done = [ar for ar in pending if ar.ready()]
                if not done:
                    now = time.time()
                    if now > deadline + 180:
                        # a path is stuck far beyond the budget (slow solver queries): what is still running is abandoned and
                        # counted as unexplored - reported (exhaustive: false, BUDGET line), never silent, never a pass of those paths
                        for ar2 in pending:
                            i2, npre = owner.get(id(ar2), (None, 1))
                            if i2 is not None:
                                states[i2].leftover += npre
                        for i2, stk in queue:
                            states[i2].leftover += len(stk) if stk else 1
                        abandoned = len(pending)
                        pool.terminate()
                        break
                    if not quiet and now - last_progress > 60:
                        last_progress = now
                        print("  .. %s %s: %d paths so far, %d tasks in flight, %d queued, %ds" % (prop, tier, total.get("paths", 0), inflight, len(queue), int(now - t_start)), flush=True)
                    time.sleep(0.01)
                    continue
                for ar in done:
                    pending.remove(ar)
                    inflight -= 1
                    try:
                        ji, results, leftover, stats, smp, fn = ar.get()
                    except BaseException as e:  # pylint: disable=broad-except
                        harness_error = "%s: %s" % (type(e).__name__, e)
                        continue
                    st = states[ji]
                    st.pending -= 1
                    funcs.update(fn)
                    for k, v in stats.items():
                        if isinstance(v, (int, float)):
                            if k == "max_query_s":
                                total[k] = max(total.get(k, 0), v)
                                st.stats[k] = max(st.stats.get(k, 0), v)
                            else:
                                total[k] = total.get(k, 0) + v
                                st.stats[k] = st.stats.get(k, 0) + v
                    for r in results:
                        st.paths += 1
                        st.status[r["status"]] = st.status.get(r["status"], 0) + 1
                        st.decisions += r.get("decisions", 0)
                        for k, v in (r.get("notes") or {}).items():
                            st.notes[k] = st.notes.get(k, 0) + v
                        if r["status"] == "violation":
                            st.violations.append(r)
                        elif r["status"] in ("exception", "unsupported", "inconclusive"):
                            st.problems.append(r)
                    if len(samples) < 400:
                        samples.extend(smp)
                    if leftover:
                        if time.time() >= deadline:
                            st.leftover += len(leftover)
                        elif len(leftover) >= 2 and (len(queue) + inflight) < nproc * 2:
                            queue.append((ji, leftover[0::2]))
                            queue.append((ji, leftover[1::2]))
                        else:
                            queue.append((ji, leftover))
    finally:
        shutil.rmtree(scratch, ignore_errors=True)
    return {
        "prop": prop,
        "harness": harness_name,
        "tier": tier,
        "seed": seed,
        "mod": mod,
        "specs": specs,
        "states": states,
        "samples": samples,
        "funcs": sorted(funcs),
        "total": total,
        "wall_s": time.time() - t_start,
        "harness_error": harness_error,
        "budget_s": budget_s,
        "mutant": mutant,
        "abandoned_tasks": abandoned,
    }


# ---------------------------------------------------------------------------------------------------------------
MUTANT = None


def _replay_batch(items, timeout=600):
    """items: list of {harness, spec, model, props}.  Runs them in ONE fresh uninstrumented interpreter on the real rp2."""
    if not items:
        return []
    d = tempfile.mkdtemp(prefix="verif-replay-")
    try:
        path = os.path.join(d, "batch.json")
        with open(path, "w", encoding="utf-8") as f:
            json.dump(items, f)
        env = dict(os.environ)
        env["PYTHONPATH"] = VERIF + (os.pathsep + os.environ["VERIF_REPO_SRC"] if os.environ.get("VERIF_REPO_SRC") else "")
        env["PYTHONHASHSEED"] = "0"
        if MUTANT:
            env["VERIF_MUTANT"] = MUTANT
        else:
            env.pop("VERIF_MUTANT", None)
        p = subprocess.run([REAL_PY, "-m", "symx.replay", "--batch", path], cwd=d, env=env, capture_output=True, text=True, timeout=timeout, check=False)
        if p.returncode != 0:
            raise RuntimeError("replay process failed: %s" % (p.stderr[-2000:],))
        with open(path + ".out", encoding="utf-8") as f:
            return json.load(f)
    finally:
        shutil.rmtree(d, ignore_errors=True)


def _msgkey(msg):
    """coarse identity of an error message: digits and quoted data removed"""
    import re  # pylint: disable=import-outside-toplevel

    return re.sub(r"[0-9]+|<[^>]*>|⟨[^⟩]*⟩", "#", str(msg))[:60]


def load_known():
    path = os.path.join(VERIF, "known_findings.json")
    if not os.path.exists(path):
        return []
    with open(path, encoding="utf-8") as f:
        return json.load(f).get("findings", [])


def _matches(finding, prop, harness_name, kind, spec, model, msg):
    if finding.get("status") != "open" or finding.get("property") != prop:
        return False
    m = finding.get("match", {})
    if m.get("harness") not in (None, harness_name):
        return False
    if m.get("kind") not in (None, kind) and kind not in m.get("kinds", []):
        return False
    where = m.get("where")
    if where:
        try:
            # the names live in the globals of the expression, so that generator expressions inside it see them too
            return bool(eval(where, {"__builtins__": {"any": any, "all": all, "len": len, "min": min, "max": max, "abs": abs, "str": str, "int": int, "sorted": sorted, "set": set}, "spec": spec, "model": model or {}, "msg": msg or "", "kind": kind}))  # pylint: disable=eval-used
        except Exception:  # pylint: disable=broad-except
            return False
    return True


def finish(res, max_replays_per_kind=3):
    """replay violations, validate sampled traces, apply known findings, write evidence, print verdict. Returns exit code."""
    from .api import same  # pylint: disable=import-outside-toplevel

    global MUTANT
    prop, harness_name, mod, specs, states = res["prop"], res["harness"], res["mod"], res["specs"], res["states"]
    MUTANT = res.get("mutant")
    known = load_known()
    out_lines = []
    # ---- 1. candidate violations -> replay on the real code
    cands = []
    seen = {}
    for ji, st in enumerate(states):
        for v in st.violations:
            if v.get("prop") != prop:
                continue
            key = (ji, v["kind"], v.get("data", {}).get("tag"))
            seen[key] = seen.get(key, 0) + 1
            if seen[key] <= max_replays_per_kind and v.get("model") is not None:
                cands.append((ji, v))
        for pb in st.problems:
            if pb["status"] == "exception" and pb.get("model") is not None:
                key = (ji, "exception:" + pb["type"], _msgkey(pb.get("msg", "")))
                seen[key] = seen.get(key, 0) + 1
                if seen[key] <= max_replays_per_kind:
                    cands.append((ji, {"prop": prop, "kind": "exception:" + pb["type"], "msg": pb["msg"], "model": pb["model"], "data": {}, "trace": pb.get("trace"), "is_exception": True}))
    items = [{"harness": harness_name, "spec": specs[ji], "model": v["model"], "props": [prop]} for ji, v in cands]
    replayed = _replay_batch(items) if items else []
    violations, known_hits, not_reproduced = [], [], []
    for (ji, v), r in zip(cands, replayed):
        rec = {"job": mod.describe(specs[ji]) if hasattr(mod, "describe") else str(specs[ji]), "spec": specs[ji], "kind": v["kind"], "msg": v.get("msg", ""), "model": {k: val for k, val in v["model"].items() if "!" not in k}, "replay": r}
        if v.get("is_exception"):
            reproduced = r["status"] == "exception" and r.get("type") == v["kind"].split(":", 1)[1]
        else:
            reproduced = r["status"] == "violation" and r.get("prop") == prop
        if not reproduced:
            not_reproduced.append(rec)
            continue
        kind = r.get("kind", v["kind"]) if not v.get("is_exception") else v["kind"]
        hit = None
        for f in known:
            if _matches(f, prop, harness_name, kind, specs[ji], v["model"], r.get("msg") or v.get("msg")):
                hit = f
                break
        if hit is not None:
            known_hits.append((hit, rec))
        else:
            violations.append(rec)
    # ---- 2. validate sampled paths against the implementation
    smp = res["samples"]
    # spread over jobs: at most 2 per job, at most 120 overall
    per_job = {}
    chosen = []
    for s in smp:
        c = per_job.get(s["job"], 0)
        if c < 2:
            per_job[s["job"]] = c + 1
            chosen.append(s)
    chosen = chosen[:120] if res["tier"] == "quick" else chosen[:400]
    vitems = [{"harness": harness_name, "spec": specs[s["job"]], "model": s["model"], "props": [prop]} for s in chosen]
    vres = _replay_batch(vitems) if vitems else []
    validated, mismatches = 0, []
    for s, r in zip(chosen, vres):
        ok = False
        if s["status"] == "ok":
            ok = r["status"] == "ok" and r.get("value") == s["value"] and same(r.get("obs"), s["obs"])
        else:
            ok = r["status"] == "violation" and [r.get("prop"), r.get("kind")] == s["value"]
            if not ok and r["status"] == "violation":
                ok = r.get("prop") == s["value"][0]
        if ok:
            validated += 1
        else:
            # a symbolic violation that does not reproduce is reported under not_reproduced above; do not double count
            if s["status"] == "ok":
                mismatches.append({"job": mod.describe(specs[s["job"]]) if hasattr(mod, "describe") else "", "model": s["model"], "symbolic": {"value": s["value"], "obs": s["obs"]}, "real": r})
    # ---- 3. totals
    paths = sum(st.paths for st in states)
    status = {}
    for st in states:
        for k, v in st.status.items():
            status[k] = status.get(k, 0) + v
    leftover = sum(st.leftover for st in states)
    problems = [(mod.describe(st.spec) if hasattr(mod, "describe") else "", pb) for st in states for pb in st.problems if pb["status"] != "exception"]
    exc_unreplayed = [pb for st in states for pb in st.problems if pb["status"] == "exception" and pb.get("model") is None]
    reach = sum(1 for st in states if st.status.get("ok", 0) + st.status.get("violation", 0) > 0)
    vacuous = [mod.describe(st.spec) if hasattr(mod, "describe") else str(st.spec) for st in states if st.paths > 0 and st.status.get("ok", 0) + st.status.get("violation", 0) == 0 and st.leftover == 0 and not st.problems]
    exhaustive = leftover == 0 and not res["harness_error"]
    inconclusive = bool(problems or exc_unreplayed or not_reproduced or mismatches or res["harness_error"] or vacuous)
    # ---- 4. replay files and verdict lines
    os.makedirs(os.path.join(VERIF, "replays"), exist_ok=True)
    for rec in violations:
        body = {"harness": harness_name, "spec": rec["spec"], "model": rec["model"], "props": [prop], "kind": rec["kind"], "msg": rec["msg"]}
        hsh = hashlib.sha1(json.dumps(body, sort_keys=True).encode()).hexdigest()[:10]
        path = os.path.join(VERIF, "replays", "%s-%s.json" % (prop, hsh))
        with open(path, "w", encoding="utf-8") as f:
            json.dump(body, f, indent=1, sort_keys=True)
        rec["replay_path"] = path
        out_lines.append("VIOLATION property=%s replay=%s" % (prop, path))
        out_lines.append("  job: %s  kind: %s  %s" % (rec["job"], rec["kind"], rec["replay"].get("msg") or rec["msg"]))
    shown = set()
    for f, rec in known_hits:
        if f["id"] not in shown:
            shown.add(f["id"])
            out_lines.append("KNOWN-FINDING: property=%s %s [%s; e.g. job %s]" % (prop, f.get("what", f["id"]), f["id"], rec["job"]))
    for rec in not_reproduced[:5]:
        out_lines.append("HARNESS-ERROR: a symbolic counterexample did not reproduce on the real code: job %s kind %s (%s) real=%s" % (rec["job"], rec["kind"], str(rec.get("msg", ""))[:240], json.dumps(rec["replay"])[:300]))
    for m in mismatches[:5]:
        out_lines.append("HARNESS-ERROR: sampled path disagrees with the implementation: job %s real=%s" % (m["job"], json.dumps(m["real"])[:300]))
    for d, pb in problems[:5]:
        out_lines.append("INCONCLUSIVE: job %s: %s %s" % (d, pb["status"], pb.get("msg", "")[:300]))
    for pb in exc_unreplayed[:5]:
        out_lines.append("INCONCLUSIVE: exception on a path without model: %s %s" % (pb["type"], pb["msg"][:200]))
    if vacuous:
        out_lines.append("INCONCLUSIVE: jobs whose every path was discarded by assumptions (vacuous): %s" % ", ".join(vacuous[:8]))
    if res["harness_error"]:
        out_lines.append("HARNESS-ERROR: %s" % res["harness_error"])
    # ---- 5. evidence
    total = res["total"]
    ev_samples = []
    for s in sorted(chosen, key=lambda x: -x.get("decisions", 0))[:6]:
        ev_samples.append({"job": mod.describe(specs[s["job"]]) if hasattr(mod, "describe") else str(specs[s["job"]]), "model": {k: v for k, v in s["model"].items() if "!" not in k}, "branch_decisions": s.get("decisions"), "outcome": s["value"], "observed": s["obs"]})
    nontrivial = sum(st.status.get("ok", 0) + st.status.get("violation", 0) for st in states)
    evidence = {
        "property_id": prop,
        "tier": res["tier"],
        "seed": res["seed"],
        "level": "model_checking",
        "wall_s": round(res["wall_s"], 2),
        "violations": len(violations),
        "coverage": {
            "states": max(paths, 1),
            "transitions": max(int(total.get("decisions", 0)) + paths, 1),
            "traces_validated_against_impl": validated,
            "samples": ev_samples or [{"note": "no path sampled"}],
            "evaluations": max(paths, 1),
            "distinct_nontrivial": nontrivial,
            "rule": "one evaluation = one symbolic path (a distinct sequence of branch outcomes of the real rp2 code and of the oracle on symbolic inputs, decided by z3); "
            "non-trivial = the path satisfied every harness assumption and reached the property's assertions (paths discarded by an assumption are not counted)",
            "exhaustive": exhaustive,
            "explanation": getattr(mod, "__doc__", "") or "",
            "technique": "symbolic execution of the real rp2 modules (AST-level substrate swap), z3 per branch, DFS by re-execution",
            "jobs": len(specs),
            "jobs_reaching_assertions": reach,
            "paths_by_status": status,
            "unexplored_prefixes_at_budget": leftover,
            "solver": {"queries": int(total.get("queries", 0)), "sat": int(total.get("sat", 0)), "unsat": int(total.get("unsat", 0)), "unknown": int(total.get("unknown", 0)), "unknown_forks": int(total.get("unknown_forks", 0)), "retries": int(total.get("retries", 0)), "solver_s": round(total.get("solver_s", 0.0), 2), "max_query_s": round(total.get("max_query_s", 0.0), 3), "z3": _z3_version()},
            "functions_executed_symbolically": res["funcs"],
            "bounds": getattr(mod, "bounds", lambda tier: {})(res["tier"]),
            "per_job": [{"job": mod.describe(st.spec) if hasattr(mod, "describe") else str(st.spec), "paths": st.paths, "status": st.status, "notes": st.notes, "solver_s": round(st.stats.get("solver_s", 0.0), 2), "unexplored": st.leftover} for st in states],
            "known_findings_hit": sorted({f["id"] for f, _ in known_hits}),
            "replays": [{"job": r["job"], "kind": r["kind"], "path": r.get("replay_path")} for r in violations],
            "counterexamples_not_reproduced": len(not_reproduced),
            "trace_mismatches": len(mismatches),
            "budget_s": res["budget_s"],
            "tasks_abandoned_after_budget": res.get("abandoned_tasks", 0),
        },
        "assumptions": getattr(mod, "assumptions", lambda: [])() + COMMON_ASSUMPTIONS,
    }
    if res.get("mutant"):
        evidence["coverage"]["mutant"] = res["mutant"]
    code = 0
    if violations:
        code = 1
    elif inconclusive:
        code = 3
    return code, out_lines, evidence


COMMON_ASSUMPTIONS = [
    "rp2.* modules are loaded from /repo/src with three mechanical AST rewrites only (decimal -> symbolic substrate, f-strings -> structured strings, int(x) -> helper that keeps a symbolic number symbolic)",
    "Configuration.type_check_timestamp_from_string is stubbed for symbolic timestamps (dateutil outside the encoding)",
    "logging disabled; cwd is a scratch directory; the warning-only consistency checks of the In/OutTransaction constructors (is_equal_within_precision deciding whether to log) are answered 'equal' on symbolic operands",
    "Python's decimal add/sub/mul are exact when the result has <= 31 digits (value ranges keep compared products inside), division/quantize correctly rounded",
    "solver verdicts are bounded by the skeletons, window and value ranges listed under coverage.bounds; nothing is claimed outside them",
]


def _z3_version():
    try:
        import z3  # pylint: disable=import-outside-toplevel

        return z3.get_version_string()
    except Exception:  # pylint: disable=broad-except
        return "?"


def write_evidence(prop, evidence):
    os.makedirs(os.path.join(VERIF, "evidence"), exist_ok=True)
    path = os.path.join(VERIF, "evidence", "%s.json" % prop)
    tmp = path + ".tmp"
    with open(tmp, "w", encoding="utf-8") as f:
        json.dump(evidence, f, indent=1, sort_keys=True, default=str)
    os.replace(tmp, path)
    return path
