"""Concrete replay on the UNINSTRUMENTED rp2 (real decimal, real datetime): python -m symx.replay <file> | --batch <file>

A replay item is {harness, spec, model, props}.  The same harness function that ran symbolically is executed with
the concrete values of the model (api.ConS); reaching an oracle failure reproduces the violation.
"""
import importlib
import json
import logging
import os
import sys
import traceback


def run_item(item):
    from .api import Abort, ConS, Violation, plain  # pylint: disable=import-outside-toplevel

    mod = importlib.import_module("harness." + item["harness"])
    S = ConS(item["model"], item["props"])
    try:
        value = mod.run(S, item["spec"])
        return {"status": "ok", "value": value, "obs": plain(S.observations)}
    except Violation as v:
        return {"status": "violation", "prop": v.prop, "kind": v.kind, "msg": v.msg}
    except Abort as a:
        return {"status": "abort", "msg": str(a)}
    except Exception as e:  # pylint: disable=broad-except
        return {"status": "exception", "type": type(e).__name__, "msg": str(e)[:500], "trace": traceback.format_exc()[-2000:]}


def main(argv):
    logging.disable(logging.CRITICAL)
    if os.environ.get("VERIF_MUTANT"):
        # sensitivity self-test: the counterexample of an in-memory mutant is replayed on the real code + that mutation
        from . import loader, mutants  # pylint: disable=import-outside-toplevel

        loader.install_plain_mutant(mutants.get(os.environ["VERIF_MUTANT"]))
    elif "rp2" in sys.modules or any(type(f).__module__.startswith("symx") for f in sys.meta_path):
        raise SystemExit("replay must run uninstrumented")
    if argv and argv[0] == "--batch":
        with open(argv[1], encoding="utf-8") as f:
            items = json.load(f)
        out = [run_item(it) for it in items]
        with open(argv[1] + ".out", "w", encoding="utf-8") as f:
            json.dump(out, f)
        return 0
    with open(argv[0], encoding="utf-8") as f:
        item = json.load(f)
    import tempfile  # pylint: disable=import-outside-toplevel

    path = os.path.abspath(argv[0])
    with tempfile.TemporaryDirectory(prefix="verif-replay-") as d:
        os.chdir(d)
        r = run_item(item)
    print(json.dumps(r, indent=1))
    if r["status"] == "violation":
        print("VIOLATION property=%s replay=%s" % (r["prop"], path))
        return 1
    if r["status"] == "exception":
        print("VIOLATION property=%s replay=%s" % ((item.get("props") or ["?"])[0], path))
        return 1
    return 0


if __name__ == "__main__":
    sys.exit(main(sys.argv[1:]))
