"""Import hook: loads every rp2.* module from /repo/src (current working tree) with two mechanical AST rewrites.

1. `from decimal import ...` / `import decimal` -> the symbolic substrate symx.vf_decimal (same names), so the
   REAL rp2_decimal.py class body, operators and comparisons run on symbolic values.
2. every f-string -> __vf_fstr__(parts...), identical for concrete parts, structured for symbolic ones
   (f-strings are evaluated in C and would flatten a proxy otherwise).
3. int(x) -> __vf_int__(x): int() for ordinary values, the truncated symbolic integer for a symbolic number;
   datetime.combine(d, t, ...) -> __vf_combine__(d, t, ...): datetime.combine for ordinary values, a symbolic datetime for a symbolic date;
   float(x) -> __vf_float__(x): float() for ordinary values; for a symbolic decimal a wrapper that can only be formatted
   (the binary rounding of the conversion is not modelled: the formatted text stands for the exact value).
Nothing in /repo is edited; the rewritten code is compiled from the file contents on every run.
"""
import ast
import importlib.abc
import importlib.util
import os
import sys

SRC = os.environ.get("VERIF_REPO_SRC", "/repo/src")
LOADED = {}
MUTATORS = []  # in-memory source mutators (sensitivity self-test only): callables (fullname, source_text) -> source_text


class _T(ast.NodeTransformer):
    def visit_ImportFrom(self, node):
        if node.module == "decimal" and node.level == 0:
            node.module = "symx.vf_decimal"
        return node

    def visit_Import(self, node):
        for a in node.names:
            if a.name == "decimal":
                a.name = "symx.vf_decimal"
                if a.asname is None:
                    a.asname = "decimal"
        return node

    def visit_Call(self, node):
        self.generic_visit(node)
        # int(x) is evaluated in C and needs a real int back: routed through a helper that is int() for ordinary values and
        # the truncated symbolic integer for a symbolic number
        if isinstance(node.func, ast.Name) and node.func.id == "int" and len(node.args) == 1 and not node.keywords:
            node.func = ast.copy_location(ast.Name("__vf_int__", ast.Load()), node.func)
        if isinstance(node.func, ast.Name) and node.func.id == "float" and len(node.args) == 1 and not node.keywords:
            node.func = ast.copy_location(ast.Name("__vf_float__", ast.Load()), node.func)
        # datetime.combine(date, time[, tzinfo]) is a C constructor: routed through a helper that accepts a symbolic date
        if isinstance(node.func, ast.Attribute) and node.func.attr == "combine" and isinstance(node.func.value, ast.Name) and node.func.value.id == "datetime":
            node.func = ast.copy_location(ast.Name("__vf_combine__", ast.Load()), node.func)
        return node

    def visit_JoinedStr(self, node):
        self.generic_visit(node)
        parts = []
        for v in node.values:
            if isinstance(v, ast.Constant):
                parts.append(v)
            else:
                spec = v.format_spec if v.format_spec is not None else ast.Constant("")
                if isinstance(spec, ast.JoinedStr):
                    if any(not isinstance(x, ast.Constant) for x in spec.values):
                        spec = self.visit_JoinedStr(spec)
                    else:
                        spec = ast.Constant("".join(x.value for x in spec.values))
                parts.append(ast.Tuple([v.value, ast.Constant(v.conversion), spec], ast.Load()))
        call = ast.Call(ast.Name("__vf_fstr__", ast.Load()), parts, [])
        return ast.copy_location(call, node)


PLAIN = False  # True: apply the source mutators only (replay of a self-test mutant on otherwise real code)


class _Loader(importlib.abc.Loader):
    def __init__(self, path, fullname):
        self.path = path
        self.fullname = fullname

    def create_module(self, spec):
        return None

    def exec_module(self, module):
        with open(self.path, encoding="utf-8") as f:
            src = f.read()
        for mut in MUTATORS:
            src = mut(self.fullname, src)
        tree = ast.parse(src, self.path)
        if not PLAIN:
            from . import vf_time  # pylint: disable=import-outside-toplevel

            tree = _T().visit(tree)
            ast.fix_missing_locations(tree)
            module.__dict__["__vf_fstr__"] = vf_time.vf_fstr
            module.__dict__["__vf_int__"] = vf_time.vf_int
            module.__dict__["__vf_float__"] = vf_time.vf_float
            module.__dict__["__vf_combine__"] = vf_time.vf_combine
        code = compile(tree, self.path, "exec")
        LOADED[self.fullname] = self.path
        exec(code, module.__dict__)  # pylint: disable=exec-used


class Finder(importlib.abc.MetaPathFinder):
    def find_spec(self, fullname, path, target=None):
        if fullname != "rp2" and not fullname.startswith("rp2."):
            return None
        rel = fullname.replace(".", "/")
        pkg = os.path.join(SRC, rel, "__init__.py")
        mod = os.path.join(SRC, rel + ".py")
        if os.path.exists(pkg):
            return importlib.util.spec_from_file_location(fullname, pkg, loader=_Loader(pkg, fullname), submodule_search_locations=[os.path.dirname(pkg)])
        if os.path.exists(mod):
            return importlib.util.spec_from_file_location(fullname, mod, loader=_Loader(mod, fullname))
        return None


_INSTALLED = False


def install_plain_mutant(mutator):
    """self-test only: real rp2 code (no substrate, no stubs) with one source-level mutation applied"""
    global PLAIN, _INSTALLED
    PLAIN = True
    _INSTALLED = True
    MUTATORS.append(mutator)
    sys.meta_path.insert(0, Finder())


def install():
    """install the hook and the environment stubs (idempotent)"""
    global _INSTALLED
    if _INSTALLED:
        return
    _INSTALLED = True
    for k in list(sys.modules):
        if k == "rp2" or k.startswith("rp2."):
            del sys.modules[k]
    sys.meta_path.insert(0, Finder())
    import logging  # pylint: disable=import-outside-toplevel

    logging.disable(logging.CRITICAL)

    from rp2.configuration import Configuration  # pylint: disable=import-outside-toplevel

    from . import vf_time  # pylint: disable=import-outside-toplevel

    orig = Configuration.type_check_timestamp_from_string.__func__

    def _stub(cls, name, value):
        # dateutil's parser is outside the encoding: a symbolic timestamp cell stands for "any string that parses to
        # this tz-aware instant"; ordinary strings still go through the real function.
        if isinstance(value, vf_time.SymDatetime):
            return value
        if isinstance(value, vf_time.SymTsStr):
            return value.dt
        return orig(cls, name, value)

    Configuration.type_check_timestamp_from_string = classmethod(_stub)

    # Cut (logging): the transaction constructors compare exchange-supplied fiat/crypto figures with the derived ones
    # only to decide whether to LOG a warning.  On symbolic operands that comparison is a non-linear query per optional
    # field and doubles the number of paths without any effect on the results, so it is answered "equal" (no warning).
    from rp2.rp2_decimal import RP2Decimal  # pylint: disable=import-outside-toplevel

    orig_eq = RP2Decimal.is_equal_within_precision.__func__

    def _iewp(cls, first, second, precision_mask):
        caller = sys._getframe(1).f_globals.get("__name__")
        if caller in ("rp2.in_transaction", "rp2.out_transaction") and not (first.is_concrete and second.is_concrete):
            return True
        return orig_eq(cls, first, second, precision_mask)

    RP2Decimal.is_equal_within_precision = classmethod(_iewp)
