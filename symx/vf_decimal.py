"""Symbolic substrate standing in for the `decimal` module while the real rp2 sources run.

A value is n / den / 10**k with n, den integer polynomials (poly.Poly) and k a Python int:
  grid  : den is None                      (exact decimal, what the parser produces)
  ratio : den a Poly                       (after a division; exact rational function)
  lazy  : a quantised grid value round_half_even(src / m) / 10**k, materialised on demand
Concrete operands (all polynomials constant) are computed with the real `decimal` module under the precision
the real rp2_decimal.py configured on getcontext(), so concrete runs agree digit for digit with the real code.
Symbolic operands are computed exactly; harnesses keep their value ranges such that every product that reaches a
comparison has at most `prec` significant digits, i.e. exact arithmetic is what the real module does there.
"""
import decimal as _real
from fractions import Fraction

import z3

from . import engine
from .engine import EQ, GT, LT, OPS, Unsupported
from .poly import Poly


class FloatOperation(Exception):
    pass


InvalidOperation = _real.InvalidOperation
DivisionByZero = _real.DivisionByZero
ROUND_HALF_EVEN = _real.ROUND_HALF_EVEN
ROUND_HALF_UP = _real.ROUND_HALF_UP
ROUND_DOWN = _real.ROUND_DOWN
ROUND_UP = _real.ROUND_UP
ROUND_FLOOR = _real.ROUND_FLOOR
ROUND_CEILING = _real.ROUND_CEILING

# set by a harness that wants every float -> Decimal conversion reported (C04)
FLOAT_EVENTS = []


def _sign_in(d, T):
    if d.is_const():
        return bool(engine.signmask(d.const_value()) & T)
    return engine.cur().sign_in(d, T)


class _Ctx:
    def __init__(self):
        self.prec = 28
        self.traps = {}
        self.rounding = ROUND_HALF_EVEN


_CTX = _Ctx()


def getcontext():
    return _CTX


def _rctx():
    return _real.Context(prec=_CTX.prec, rounding=_CTX.rounding)


def _from_real(d):
    sign, digits, exp = d.as_tuple()
    if not isinstance(exp, int):
        raise Unsupported("NaN/Infinity")
    n = int("".join(map(str, digits))) * (-1 if sign else 1)
    if exp >= 0:
        return n * 10**exp, 0
    return n, -exp


def _parse(s):
    return _from_real(_real.Decimal(s))


def _rhe(n, m):
    """round-half-even of n/m for python ints, m > 0"""
    q, r = divmod(n, m)
    if 2 * r > m or (2 * r == m and q % 2):
        q += 1
    return q


class Decimal:
    __slots__ = ("n", "k", "den", "lazy", "nr", "eb")

    def __init__(self, value="0", context=None):
        self.den = None
        self.lazy = None
        self.nr = getattr(value, "nr", 0)  # number of arithmetic operations in the derivation (each may round at `prec` digits)
        self.eb = getattr(value, "eb", None)  # TRACK_ERR: upper bound on |value computed at `prec` digits - exact value| (None = exact)
        if isinstance(value, Decimal):
            if value.n is None and value.lazy is None:
                value._mat()
            self.n, self.k, self.den, self.lazy = value.n, value.k, value.den, value.lazy
        elif hasattr(value, "vf_grid"):
            self.n, self.k = value.vf_grid
        elif isinstance(value, str):
            try:
                n, self.k = _parse(value.strip().replace("_", ""))
            except _real.InvalidOperation:
                raise InvalidOperation([_real.ConversionSyntax]) from None
            self.n = Poly.const(n)
        elif isinstance(value, bool):
            self.n, self.k = Poly.const(int(value)), 0
        elif isinstance(value, int):
            self.n, self.k = Poly.const(value), 0
        elif isinstance(value, float):
            if hasattr(value, "vf_float"):
                raise Unsupported("Decimal(symbolic float)")
            if _CTX.traps.get(FloatOperation):
                raise FloatOperation([FloatOperation])
            n, self.k = _from_real(_real.Decimal(value))
            self.n = Poly.const(n)
        elif isinstance(value, _real.Decimal):
            n, self.k = _from_real(value)
            self.n = Poly.const(n)
        elif isinstance(value, tuple) and value and value[0] == "grid":
            _, self.n, self.k = value
        elif isinstance(value, tuple) and value and value[0] == "ratio":
            _, self.n, self.den, self.k = value
        elif isinstance(value, tuple) and value and value[0] == "lazy":
            _, src, m, self.k = value
            self.n = None
            self.lazy = (src, m)
        else:
            raise TypeError("conversion from %s to Decimal is not supported" % type(value).__name__)

    # ---- forms
    def _mat(self):
        """materialise a lazy quantised value as a defined variable"""
        if self.lazy is not None and self.n is None:
            src, m = self.lazy
            if src.is_const():
                self.n = Poly.const(_rhe(src.const_value(), m))
            else:
                c = engine.cur()
                key = ("rhe", src.key, m)
                v = c.divcache.get(key)
                if v is None:
                    e = src.z3()

                    def cons(q):
                        r2 = 2 * (e - m * q)
                        return z3.Or(z3.And(r2 > -m, r2 < m), z3.And(r2 == m, q % 2 == 0), z3.And(r2 == -m, q % 2 == 0))

                    v = c.divcache[key] = c.define("q", cons, lambda mdl: _rhe(src.eval(mdl), m))
                self.n = v
            self.lazy = None
        return self

    @property
    def is_grid(self):
        return self.den is None

    @property
    def is_concrete(self):
        if self.lazy is not None and self.n is None:
            if not self.lazy[0].is_const():
                return False
            self._mat()
        return self.n.is_const() and (self.den is None or self.den.is_const())

    def _real(self):
        """real decimal.Decimal of a concrete value (exact)"""
        n = self.n.const_value()
        d = _real.Decimal(n).scaleb(-self.k, context=_real.Context(prec=max(len(str(abs(n))) + 2, 10)))
        if self.den is not None:
            return _rctx().divide(d, _real.Decimal(self.den.const_value()))
        return d

    def fraction(self):
        if not self.is_concrete:
            raise Unsupported("fraction() of a symbolic value")
        d = self.den.const_value() if self.den is not None else 1
        return Fraction(self.n.const_value(), d * 10**self.k)

    def eval(self, model):
        """exact Fraction value under a model (dict name -> int)"""
        if self.lazy is not None and self.n is None:
            src, m = self.lazy
            return Fraction(_rhe(src.eval(model), m), 10**self.k)
        d = self.den.eval(model) if self.den is not None else 1
        return Fraction(self.n.eval(model), d * 10**self.k)

    @staticmethod
    def _coerce(o):
        if isinstance(o, Decimal):
            return o
        if isinstance(o, bool):
            return Decimal(int(o))
        if isinstance(o, int):
            return Decimal(o)
        return None

    @classmethod
    def _wrap_real(cls, d):
        n, k = _from_real(d)
        return Decimal(("grid", Poly.const(n), k))

    def _as_ratio(self):
        self._mat()
        if self.den is None:
            return self.n, Poly.const(1), self.k
        return self.n, self.den, self.k

    def _bin(self, o, op):
        r = self._bin0(o, op)
        if r is not NotImplemented:
            r.nr = self.nr + getattr(o, "nr", 0) + 1
            if TRACK_ERR and not _IN_EB[0]:
                r.eb = _error_bound(self, Decimal._coerce(o), op, r)
        return r

    def _bin0(self, o, op):
        if isinstance(o, float):
            if _CTX.traps.get(FloatOperation):
                raise FloatOperation([FloatOperation])
            return NotImplemented
        o = Decimal._coerce(o)
        if o is None:
            return NotImplemented
        if self.is_concrete and o.is_concrete:
            a, b, c = self._real(), o._real(), _rctx()
            if op == "+":
                return Decimal._wrap_real(c.add(a, b))
            if op == "-":
                return Decimal._wrap_real(c.subtract(a, b))
            if op == "*":
                return Decimal._wrap_real(c.multiply(a, b))
            if op == "/":
                return Decimal._wrap_real(c.divide(a, b))
        self._mat()
        o._mat()
        if self.is_grid and o.is_grid:
            if op in "+-":
                k = max(self.k, o.k)
                a, b = self.n.scale(10 ** (k - self.k)), o.n.scale(10 ** (k - o.k))
                return Decimal(("grid", a + b if op == "+" else a - b, k))
            if op == "*":
                return Decimal(("grid", self.n * o.n, self.k + o.k))
            if o.n.is_const():
                # division by a concrete value whose reciprocal is a finite decimal stays on the grid
                cv = o.n.const_value()
                f = Fraction(10**o.k, cv)
                den = f.denominator
                t2 = t5 = 0
                while den % 2 == 0:
                    den //= 2
                    t2 += 1
                while den % 5 == 0:
                    den //= 5
                    t5 += 1
                if den == 1:
                    e = max(t2, t5)
                    mult = f.numerator * (10**e // f.denominator)
                    return Decimal(("grid", self.n.scale(mult), self.k + e))
            return Decimal(("ratio", self.n.scale(10**o.k), o.n, self.k))
        an, ad, ak = self._as_ratio()
        bn, bd, bk = o._as_ratio()
        if op == "*":
            return Decimal(("ratio", an * bn, ad * bd, ak + bk))
        if op == "/":
            return Decimal(("ratio", (an * bd).scale(10**bk), ad * bn, ak))
        k = max(ak, bk)
        if ad.key == bd.key:
            x, y = an.scale(10 ** (k - ak)), bn.scale(10 ** (k - bk))
            return Decimal(("ratio", x + y if op == "+" else x - y, ad, k))
        x = (an * bd).scale(10 ** (k - ak))
        y = (bn * ad).scale(10 ** (k - bk))
        return Decimal(("ratio", x + y if op == "+" else x - y, ad * bd, k))

    def __add__(self, o):
        return self._bin(o, "+")

    def __radd__(self, o):
        oo = Decimal._coerce(o)
        return NotImplemented if oo is None else oo._bin(self, "+")

    def __sub__(self, o):
        return self._bin(o, "-")

    def __rsub__(self, o):
        oo = Decimal._coerce(o)
        return NotImplemented if oo is None else oo._bin(self, "-")

    def __mul__(self, o):
        return self._bin(o, "*")

    def __rmul__(self, o):
        oo = Decimal._coerce(o)
        return NotImplemented if oo is None else oo._bin(self, "*")

    def __truediv__(self, o):
        if isinstance(o, float):
            return self._bin(o, "/")
        oo = Decimal._coerce(o)
        if oo is None:
            return NotImplemented
        if oo._cmp0("==", Decimal(0)):
            if self._cmp0("==", Decimal(0)):
                raise InvalidOperation([_real.DivisionUndefined])
            raise DivisionByZero([DivisionByZero])
        return self._bin(oo, "/")

    def __rtruediv__(self, o):
        oo = Decimal._coerce(o)
        return NotImplemented if oo is None else oo.__truediv__(self)

    def _concrete_only(self, o, name):
        oo = Decimal._coerce(o)
        if oo is None:
            return NotImplemented
        if self.is_concrete and oo.is_concrete:
            return Decimal._wrap_real(getattr(_rctx(), name)(self._real(), oo._real()))
        raise Unsupported("Decimal.%s on a symbolic value" % name)

    def __floordiv__(self, o):
        return self._concrete_only(o, "divide_int")

    def __rfloordiv__(self, o):
        oo = Decimal._coerce(o)
        return NotImplemented if oo is None else oo.__floordiv__(self)

    def __mod__(self, o):
        return self._concrete_only(o, "remainder")

    def __rmod__(self, o):
        oo = Decimal._coerce(o)
        return NotImplemented if oo is None else oo.__mod__(self)

    def __pow__(self, o, modulo=None):
        oo = Decimal._coerce(o)
        if oo is None:
            return NotImplemented
        if oo.is_concrete and modulo is None and oo.is_grid and oo.k == 0 and 0 <= oo.n.const_value() <= 4:
            r = Decimal(1)
            for _ in range(oo.n.const_value()):
                r = r * self
            return r
        return self._concrete_only(o, "power")

    def __rpow__(self, o):
        oo = Decimal._coerce(o)
        return NotImplemented if oo is None else oo.__pow__(self)

    def __neg__(self):
        self._mat()
        if self.is_grid:
            r = Decimal(("grid", -self.n, self.k))
        else:
            r = Decimal(("ratio", -self.n, self.den, self.k))
        r.nr, r.eb = self.nr, self.eb
        return r

    def __pos__(self):
        return Decimal(self)

    def __abs__(self):
        return -self if self._cmp0("<", Decimal(0)) else Decimal(self)

    def copy_abs(self):
        return self.__abs__()

    def copy_negate(self):
        return self.__neg__()

    def quantize(self, exp, rounding=None, context=None):
        if not isinstance(exp, Decimal) or not exp.is_concrete:
            raise Unsupported("quantize with a symbolic mask")
        if rounding not in (None, ROUND_HALF_EVEN):
            if self.is_concrete:
                return Decimal._wrap_real(self._real().quantize(exp._real(), rounding=rounding, context=_rctx()))
            raise Unsupported("quantize with rounding %s" % rounding)
        if self.is_concrete:
            return Decimal._wrap_real(self._real().quantize(exp._real(), context=_rctx()))
        k = exp.k
        self._mat()
        if not self.is_grid:
            n, d, kk = self._as_ratio()
            # round(n / d / 10^kk to k decimals): keep lazily as a quotient threshold form
            return _QuotQ(n, d, kk, k)
        if self.k <= k:
            return Decimal(("grid", self.n.scale(10 ** (k - self.k)), k))
        return Decimal(("lazy", self.n, 10 ** (self.k - k), k))

    # ---- comparisons (exact, base-class level)
    def _cmp0(self, op, o):
        o = Decimal._coerce(o)
        T = OPS[op]
        if self.lazy is not None and self.n is None and o.lazy is None and o.is_grid and o.n.is_const() and o.k <= self.k:
            src, m = self.lazy
            cv = o.n.const_value() * 10 ** (self.k - o.k)
            return _threshold_cmp(src, Poly.const(m), cv, T)
        self._mat()
        o._mat()
        if self.is_grid and o.is_grid:
            k = max(self.k, o.k)
            return _sign_in(self.n.scale(10 ** (k - self.k)) - o.n.scale(10 ** (k - o.k)), T)
        an, ad, ak = self._as_ratio()
        bn, bd, bk = o._as_ratio()
        k = max(ak, bk)
        if ad.key == bd.key:
            d = an.scale(10 ** (k - ak)) - bn.scale(10 ** (k - bk))
            den = ad
        else:
            d = (an * bd).scale(10 ** (k - ak)) - (bn * ad).scale(10 ** (k - bk))
            den = ad * bd
        if d.is_const() and d.const_value() == 0:
            return bool(T & EQ)
        if _sign_in(den, GT):
            return _sign_in(d, T)
        return _sign_in(-d, T)

    def _cmpop(self, op, o):
        if isinstance(o, float):
            if _CTX.traps.get(FloatOperation):
                raise FloatOperation([FloatOperation])
            return NotImplemented
        if Decimal._coerce(o) is None:
            return NotImplemented
        return self._cmp0(op, o)

    def __eq__(self, o):
        return self._cmpop("==", o)

    def __ne__(self, o):
        r = self._cmpop("==", o)
        return r if r is NotImplemented else not r

    def __lt__(self, o):
        return self._cmpop("<", o)

    def __le__(self, o):
        return self._cmpop("<=", o)

    def __gt__(self, o):
        return self._cmpop(">", o)

    def __ge__(self, o):
        return self._cmpop(">=", o)

    def __bool__(self):
        return not self._cmp0("==", Decimal(0))

    def is_zero(self):
        return self._cmp0("==", Decimal(0))

    def is_signed(self):
        return self._cmp0("<", Decimal(0))

    def is_nan(self):
        return False

    def is_finite(self):
        return True

    def is_infinite(self):
        return False

    def __hash__(self):
        if self.is_concrete:
            return hash(self.fraction())
        raise Unsupported("hash of a symbolic Decimal")

    def __float__(self):
        if self.is_concrete:
            return float(self._real())
        raise Unsupported("float() of a symbolic Decimal")

    def __int__(self):
        if self.is_concrete:
            return int(self._real())
        raise Unsupported("int() of a symbolic Decimal")

    def __round__(self, n=None):
        if self.is_concrete:
            return round(self._real(), n) if n is None else Decimal._wrap_real(round(self._real(), n))
        raise Unsupported("round() of a symbolic Decimal")

    def as_tuple(self):
        if self.is_concrete:
            return self._real().as_tuple()
        raise Unsupported("as_tuple of a symbolic Decimal")

    def normalize(self, context=None):
        if self.is_concrete:
            return Decimal._wrap_real(self._real().normalize(_rctx()))
        return Decimal(self)

    def __format__(self, spec):
        if self.is_concrete:
            return format(self._real(), spec)
        return "<sym>"

    def __vf_format__(self, spec):
        if self.is_concrete:
            return format(self._real(), spec)
        from .vf_time import SymStr  # pylint: disable=import-outside-toplevel

        return SymStr([_Formatted(self, spec)])

    def __str__(self):
        if self.is_concrete:
            return self.__format__("")
        # the text of a symbolic number: Decimal(str(x)) gives x back (rp2 converts through str in a few places)
        from .vf_time import SymNumStr  # pylint: disable=import-outside-toplevel

        return SymNumStr(self)

    def __repr__(self):
        if self.is_concrete:
            return "Decimal('%s')" % self._real()
        return "Decimal(<sym>)"

    def __getattr__(self, name):
        if name.startswith("__") or name.startswith("_RP2") or name.startswith("_Decimal") or not hasattr(_real.Decimal, name):
            raise AttributeError(name)  # the real Decimal has no such attribute either
        raise Unsupported("Decimal.%s is not modelled by the substrate" % name)


# ---- rounding-error bounds (C04): every arithmetic result carries an upper bound on the distance between the value the real
# decimal module computes (each operation correctly rounded to `prec` significant digits) and the exact value.  First-order
# propagation with the unit roundoff u = 5 * 10^-prec charged on every operation; second-order terms are covered by the
# factor 1 + 1e-6 on quotients.  The bound is itself an exact-rational substrate value.
TRACK_ERR = False
_IN_EB = [False]


def _abs_sym(x):
    if x.is_concrete:
        return x if x.fraction() >= 0 else -x
    return -x if x._cmp0("<", Decimal(0)) else x


def _sign_if_cheap(x):
    """+1 / -1 / 0 when the sign of x follows from the signs of the input variables alone, None otherwise (no solver query)"""
    if x.is_concrete:
        f = x.fraction()
        return (f > 0) - (f < 0)
    if x.lazy is not None and x.n is None:
        return None
    n, d, _k = x._as_ratio()
    prod = n * d
    if prod.is_const():
        v = prod.const_value()
        return (v > 0) - (v < 0)
    q = engine.cur()._quick_sign(prod)  # pylint: disable=protected-access
    return 1 if q == GT else (-1 if q == LT else None)


def _abs_upper(r, a, b, op):
    """|r|, or the upper bound |a| + |b| for a sum / difference whose sign is not known without asking the solver
    (asking would fork every path on the sign of every gain)"""
    sg = _sign_if_cheap(r)
    if sg is not None:
        return r if sg >= 0 else -r
    if op in "+-":
        sa, sb = _sign_if_cheap(a), _sign_if_cheap(b)
        if sa is not None and sb is not None:
            return (a if sa >= 0 else -a)._bin0(b if sb >= 0 else -b, "+")
    return _abs_sym(r)


def _coef_bound(poly):
    """upper bound on |poly| from the declared ranges of the input variables (None: unknown)"""
    if poly.is_const():
        return abs(poly.const_value())
    vb = engine.cur().var_bound
    tot = 0
    for mono, c in poly.m.items():
        t = abs(c)
        for v in mono:
            bnd = vb.get(v)
            if bnd is None:
                return None
            t *= bnd
        tot += t
    return tot


def _result_is_exact(op, r):
    """+, -, * of decimals are exact in the real module when the result has at most `prec` significant digits"""
    if op == "/" or r.lazy is not None or not r.is_grid or r.n is None:
        return False
    bnd = _coef_bound(r.n)
    return bnd is not None and bnd < 10**_CTX.prec


INF = ("inf",)  # error bound unknown (the sign of an intermediate value would have needed a solver query)


def _u_factor(exact):
    return Fraction(0) if exact else Fraction(5, 10**_CTX.prec)


def _abs_cheap(x):
    sg = _sign_if_cheap(x)
    if sg is None:
        return None
    return x if sg >= 0 else -x


def _total_abs(x):
    """absolute error bound of x as a substrate value (None when it cannot be formed without a query)"""
    e = x.eb
    if e is None:
        return Decimal(0)
    if e[0] == "abs":
        return e[1]
    ax = _abs_cheap(x)
    if ax is None:
        return None
    f = e[1]
    return ax._bin0(Decimal(("ratio", Poly.const(f.numerator), Poly.const(f.denominator), 0)), "*")


def _error_bound(a, b, op, r):
    """error bound of r = a op b.  Representation: None (exact) | ("rel", Fraction) - at most that fraction of |r| |
    ("abs", substrate value) - an absolute bound | INF.  Relative bounds stay plain numbers through products, quotients and
    same-sign sums, so that the usual figures never need the solver; a difference (cancellation) switches to an absolute,
    symbolic bound."""
    _IN_EB[0] = True
    try:
        ea, ebb = a.eb, b.eb
        if ea is INF or ebb is INF:
            return INF
        exact = _result_is_exact(op, r)
        if exact and ea is None and ebb is None:
            return None
        u = _u_factor(exact)
        rel_a = Fraction(0) if ea is None else (ea[1] if ea[0] == "rel" else None)
        rel_b = Fraction(0) if ebb is None else (ebb[1] if ebb[0] == "rel" else None)
        if op in "*/" and rel_a is not None and rel_b is not None:
            if op == "*":
                f = (1 + rel_a) * (1 + rel_b) * (1 + u) - 1
            else:
                if rel_b >= 1:
                    return INF
                f = (1 + rel_a) * (1 + u) / (1 - rel_b) - 1
            return ("rel", f) if f else None
        if op in "+-" and rel_a is not None and rel_b is not None:
            sa, sb = _sign_if_cheap(a), _sign_if_cheap(b)
            if sa is not None and sb is not None and (sa == 0 or sb == 0 or (sa == sb) == (op == "+")):
                f = (1 + max(rel_a, rel_b)) * (1 + u) - 1  # a sum of same-sign terms: no cancellation
                return ("rel", f) if f else None
        # absolute, symbolic bound
        ta, tb = _total_abs(a), _total_abs(b)
        if ta is None or tb is None:
            return INF
        ub = Decimal(("ratio", Poly.const(u.numerator), Poly.const(u.denominator), 0))
        if op in "+-":
            ar = _abs_cheap(r)
            if ar is None:
                aa, ab = _abs_cheap(a), _abs_cheap(b)
                if aa is None or ab is None:
                    return INF
                ar = aa._bin0(ab, "+")
            tot = ta._bin0(tb, "+")._bin0(ar._bin0(ub, "*"), "+")
        else:
            aa, ab, ar = _abs_cheap(a), _abs_cheap(b), _abs_cheap(r)
            if aa is None or ab is None or ar is None:
                return INF
            if op == "*":
                tot = ab._bin0(ta, "*")._bin0(aa._bin0(tb, "*"), "+")._bin0(ta._bin0(tb, "*"), "+")._bin0(ar._bin0(ub, "*"), "+")
            else:
                safety = Decimal(("grid", Poly.const(1000001), 6))
                tot = ta._bin0(ar._bin0(tb, "*"), "+")._bin0(ab, "/")._bin0(safety, "*")._bin0(ar._bin0(ub, "*"), "+")
        tot.eb = None
        return ("abs", tot)
    finally:
        _IN_EB[0] = False


class _Formatted:
    """a symbolic Decimal rendered through a format spec inside a structured string"""

    def __init__(self, value, spec):
        self.value = value
        self.spec = spec

    def __repr__(self):
        return "<%s:%s>" % ("dec", self.spec)


def _threshold_cmp(num, den, cv, T):
    """sign test of q - cv with q = round_half_even(num / den), den > 0 (Poly), cv python int"""
    c = _sign_in
    hi = num.scale(2) - den.scale(2 * cv + 1)  # > 0  <=> num/den > cv + 1/2
    lo = num.scale(2) - den.scale(2 * cv - 1)  # < 0  <=> num/den < cv - 1/2
    odd = cv % 2
    if T & GT and (c(hi, GT) or (odd and c(hi, EQ))):
        return True
    if T & LT and (c(lo, LT) or (odd and c(lo, EQ))):
        return True
    if T & EQ:
        above = c(hi, GT) or (odd and c(hi, EQ))
        below = c(lo, LT) or (odd and c(lo, EQ))
        return not above and not below
    return False


class _QuotQ(Decimal):
    """quantize() of a quotient n / d / 10^kk to k decimals; only comparisons with constants are supported"""

    __slots__ = ("qn", "qd", "qk")

    def __init__(self, n, d, kk, k):  # pylint: disable=super-init-not-called
        self.den = None
        self.lazy = None
        self.nr = 0
        self.eb = None
        self.n = None
        self.k = k
        # value*10^k = n*10^k / (d*10^kk)
        if k >= kk:
            self.qn, self.qd = n.scale(10 ** (k - kk)), d
        else:
            self.qn, self.qd = n, d.scale(10 ** (kk - k))

    def _mat(self):
        if self.n is None:
            qn, qd = self.qn, self.qd
            if not _sign_in(qd, GT):
                qn, qd = -qn, -qd
            c = engine.cur()
            e, f = qn.z3(), qd.z3()

            def cons(q):
                r2 = 2 * (e - f * q)
                return z3.Or(z3.And(r2 > -f, r2 < f), z3.And(r2 == f, q % 2 == 0), z3.And(r2 == -f, q % 2 == 0))

            self.n = c.define("qq", cons, lambda mdl: _rhe(qn.eval(mdl), qd.eval(mdl)))
        return self

    @property
    def is_concrete(self):
        return False

    def eval(self, model):
        qn, qd = self.qn.eval(model), self.qd.eval(model)
        if qd < 0:
            qn, qd = -qn, -qd
        return Fraction(_rhe(qn, qd), 10**self.k)

    def _cmp0(self, op, o):
        o = Decimal._coerce(o)
        if self.n is None and o.lazy is None and o.is_grid and o.n.is_const() and o.k <= self.k:
            cv = o.n.const_value() * 10 ** (self.k - o.k)
            qn, qd = self.qn, self.qd
            if not _sign_in(qd, GT):
                qn, qd = -qn, -qd
            return _threshold_cmp(qn, qd, cv, OPS[op])
        self._mat()
        return Decimal(("grid", self.n, self.k))._cmp0(op, o)
