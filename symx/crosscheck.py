"""Validation of the encoding on the repository's own inputs (run at the start of every check).

The sample spreadsheets shipped with rp2 are pushed through (a) the real, uninstrumented code in a fresh interpreter and
(b) the instrumented code (import hook + substrate, all values concrete) in this process; the digests - every gain/loss
fraction with its figures, the yearly lines, the balances, the average price - must be identical.  A difference means the
AST rewrites or the substrate change the meaning of the code on concrete data: the check stops with a harness error.
"""
import json
import os
import subprocess
import sys

VERIF = os.path.dirname(os.path.dirname(os.path.abspath(__file__)))
CASES = [
    ("config/test_data.ini", "input/test_data.ods", ["B1", "B2", "B3", "B4"], "fifo"),
    ("config/test_data.ini", "input/test_data.ods", ["B1", "B2", "B3", "B4"], "lifo"),
    ("config/test_data.ini", "input/test_hifo.ods", None, "hifo"),
    ("config/test_data.ini", "input/test_many_year_data.ods", None, "lofo"),
    ("config/test_data4.ini", "input/test_data4.ods", None, "fifo"),
]


def digest(repo_root):
    """runs in whichever rp2 is importable (real or instrumented); returns a JSON-able digest"""
    import importlib  # pylint: disable=import-outside-toplevel
    from fractions import Fraction  # pylint: disable=import-outside-toplevel

    from prezzemolo.avl_tree import AVLTree  # pylint: disable=import-outside-toplevel
    from rp2.accounting_engine import AccountingEngine  # pylint: disable=import-outside-toplevel
    from rp2.configuration import Configuration  # pylint: disable=import-outside-toplevel
    from rp2.ods_parser import open_ods, parse_ods  # pylint: disable=import-outside-toplevel
    from rp2.plugin.country.us import US  # pylint: disable=import-outside-toplevel
    from rp2.tax_engine import compute_tax  # pylint: disable=import-outside-toplevel

    def num(x):
        f = Fraction(str(x)) if not hasattr(x, "fraction") else x.fraction()
        return "%d/%d" % (f.numerator, f.denominator)

    out = []
    for ini, ods, assets, method in CASES:
        ini_p, ods_p = os.path.join(repo_root, ini), os.path.join(repo_root, ods)
        if not (os.path.exists(ini_p) and os.path.exists(ods_p)):
            continue
        cfg = Configuration(ini_p, US(), allow_negative_balances=True)
        handle = open_ods(cfg, ods_p)
        names = assets or sorted(a for a in cfg.assets if a in handle.sheets.names())
        tree = AVLTree()
        tree.insert_node(1970, importlib.import_module("rp2.plugin.accounting_method." + method).AccountingMethod())
        engine = AccountingEngine(tree)
        for asset in names:
            try:
                cd = compute_tax(cfg, engine, parse_ods(cfg, asset, handle))
            except Exception as e:  # pylint: disable=broad-except
                out.append([ods, asset, method, "error", type(e).__name__, str(e)[:120]])
                continue
            gl = [[g.taxable_event.row, g.acquired_lot.row if g.acquired_lot else None, num(g.crypto_amount), num(g.taxable_event_fiat_amount_with_fee_fraction), num(g.fiat_cost_basis), num(g.fiat_gain), bool(g.is_long_term_capital_gains())] for g in cd.gain_loss_set]
            yl = [[y.year, y.transaction_type.name, y.is_long_term_capital_gains, num(y.crypto_amount), num(y.fiat_amount), num(y.fiat_cost_basis), num(y.fiat_gain_loss)] for y in cd.yearly_gain_loss_list]
            bl = [[b.exchange, b.holder, num(b.final_balance), num(b.acquired_balance), num(b.sent_balance), num(b.received_balance)] for b in cd.balance_set]
            out.append([ods, asset, method, gl, yl, bl, num(cd.price_per_unit)])
    return out


def main_real():
    import logging  # pylint: disable=import-outside-toplevel
    import tempfile  # pylint: disable=import-outside-toplevel

    logging.disable(logging.CRITICAL)
    os.chdir(tempfile.mkdtemp(prefix="verif-cross-"))
    import rp2  # pylint: disable=import-outside-toplevel

    root = os.path.dirname(os.path.dirname(os.path.dirname(os.path.abspath(rp2.__file__))))
    json.dump(digest(root), sys.stdout)


def run():
    """returns (ok, text).  Called by symx.main before the exploration starts."""
    import shutil  # pylint: disable=import-outside-toplevel
    import tempfile  # pylint: disable=import-outside-toplevel

    from . import loader  # pylint: disable=import-outside-toplevel

    src = loader.SRC
    root = os.path.dirname(src)
    env = dict(os.environ)
    env["PYTHONPATH"] = VERIF + (os.pathsep + os.environ["VERIF_REPO_SRC"] if os.environ.get("VERIF_REPO_SRC") else "")
    env["PYTHONHASHSEED"] = "0"
    p = subprocess.run(["/venv/bin/python", "-c", "from symx import crosscheck; crosscheck.main_real()"], env=env, capture_output=True, text=True, timeout=600, check=False)
    if p.returncode != 0:
        return False, "real-code digest failed: %s" % p.stderr[-800:]
    real = json.loads(p.stdout)
    # the instrumented side runs in a child process as well, so that this process stays free of rp2 modules
    code = "import os,sys,json,tempfile,logging; logging.disable(logging.CRITICAL); os.chdir(tempfile.mkdtemp(prefix='verif-cross-')); from symx import loader, crosscheck; loader.install(); json.dump(crosscheck.digest(%r), sys.stdout)" % root
    env2 = dict(os.environ)
    env2["PYTHONHASHSEED"] = "0"
    q = subprocess.run([sys.executable, "-c", code], env=env2, capture_output=True, text=True, timeout=600, check=False)
    if q.returncode != 0:
        return False, "instrumented digest failed: %s" % q.stderr[-800:]
    inst = json.loads(q.stdout)
    for d in (tempfile.gettempdir(),):
        for name in os.listdir(d):
            if name.startswith("verif-cross-"):
                shutil.rmtree(os.path.join(d, name), ignore_errors=True)
    if real != inst:
        for a, b in zip(real, inst):
            if a != b:
                return False, "instrumented code disagrees with the real code on %s %s %s" % (a[0], a[1], a[2])
        return False, "digests differ in length: %d vs %d" % (len(real), len(inst))
    nfr = sum(len(x[3]) for x in real if x[3] != "error")
    return True, "%d asset runs of the repository's sample inputs, %d gain/loss fractions: instrumented == real" % (len(real), nfr)
