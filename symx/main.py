"""./check <ID> [--tier quick|thorough] [--jobs substr] [--mutant name] [--budget seconds]"""
import argparse
import os
import sys
import time

from . import runner

HARNESS = {
    "C01": "c01_c02",
    "C02": "c01_c02",
    "C03": "c03",
    "C04": "c04",
    "C05": "c05",
    "C06": "c06",
    "C07": "c07_c08",
    "C08": "c07_c08",
    "C09": "c09_c10",
    "C10": "c09_c10",
    "C11": "c11_c12",
    "C12": "c11_c12",
    "C13": "c13_c19",
    "C14": "c14_c16",
    "C16": "c14_c16",
    "C15": "c15",
    "C20": "c20",
    "C17": "c17",
    "C19": "c13_c19",
}


def main(argv):
    ap = argparse.ArgumentParser()
    ap.add_argument("prop")
    ap.add_argument("--tier", default=os.environ.get("VERIF_TIER", "quick"), choices=["quick", "thorough"])
    ap.add_argument("--jobs", default=None, help="only jobs whose description contains this substring")
    ap.add_argument("--mutant", default=None, help="in-memory AST mutant of the loaded rp2 modules (self-test)")
    ap.add_argument("--budget", type=float, default=None)
    ap.add_argument("--workers", type=int, default=None)
    ap.add_argument("--no-evidence", action="store_true")
    args = ap.parse_args(argv)
    prop = args.prop.upper()
    if prop not in HARNESS:
        print("unknown or unclaimed property %s" % prop)
        return 3
    seed = int(os.environ.get("VERIF_SEED", "0") or 0)
    import importlib  # pylint: disable=import-outside-toplevel

    mod = importlib.import_module("harness." + HARNESS[prop])
    flt = None
    if args.jobs:
        flt = lambda s: args.jobs in mod.describe(s)  # noqa: E731
    t0 = time.time()
    cross = None
    if not args.mutant:
        # the encoding is first validated on the repository's own sample inputs: instrumented code == real code
        from . import crosscheck  # pylint: disable=import-outside-toplevel

        ok, cross = crosscheck.run()
        if not ok:
            print("HARNESS-ERROR: %s" % cross)
            print("INCONCLUSIVE property=%s (exit 3)" % prop)
            return 3
    res = runner.run_check(prop, HARNESS[prop], args.tier, seed=seed, budget_s=args.budget, mutant=args.mutant, jobs_filter=flt, max_workers=args.workers)
    if hasattr(mod, "post"):
        mod.post(res)
    code, lines, evidence = runner.finish(res)
    evidence["wall_s"] = round(time.time() - t0, 2)
    evidence["coverage"]["encoding_crosscheck"] = cross
    if not args.no_evidence and not args.mutant and not args.jobs:
        runner.write_evidence(prop, evidence)
    cov = evidence["coverage"]
    print(
        "%s %s: jobs=%d paths=%d %s exhaustive=%s queries=%d solver=%.1fs validated_traces=%d wall=%.1fs"
        % (prop, args.tier, cov["jobs"], cov["states"], cov["paths_by_status"], cov["exhaustive"], cov["solver"]["queries"], cov["solver"]["solver_s"], cov["traces_validated_against_impl"], evidence["wall_s"])
    )
    for ln in lines:
        print(ln)
    if cov["unexplored_prefixes_at_budget"]:
        print("BUDGET: %d path prefixes were still unexplored when the time budget (%ss) ran out - the verdict covers the explored paths only" % (cov["unexplored_prefixes_at_budget"], cov["budget_s"]))
    if code == 0:
        print("OK property=%s held on everything explored (bounded)" % prop)
    elif code == 3:
        print("INCONCLUSIVE property=%s (exit 3)" % prop)
    return code


if __name__ == "__main__":
    sys.exit(main(sys.argv[1:]))
