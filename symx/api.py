"""Mode-agnostic scenario API used by the harnesses.

The same harness function runs (a) under the explorer on the instrumented rp2 with symbolic values (SymS) and
(b) in a fresh uninstrumented interpreter on the real rp2 with the concrete values of a model (ConS): that is how
counterexamples are replayed and how sampled paths are validated against the implementation.
"""
from datetime import date, datetime, timedelta, timezone
from fractions import Fraction

_E = datetime(1970, 1, 1, tzinfo=timezone.utc)
_EPOCH_ORD = date(1970, 1, 1).toordinal()


def us_of(y, m=1, d=1, hh=0, mm=0, ss=0, us=0):
    return ((datetime(y, m, d, hh, mm, ss, tzinfo=timezone.utc) - _E) // timedelta(microseconds=1)) + us


class Violation(BaseException):
    def __init__(self, prop, kind, msg="", data=None):
        super().__init__("%s %s %s" % (prop, kind, msg))
        self.prop = prop
        self.kind = kind
        self.msg = msg
        self.data = data or {}


class Abort(BaseException):
    pass


class _Base:
    def __init__(self, props):
        self.props = set(props)
        self.observations = []

    def want(self, prop):
        return prop in self.props

    def observe(self, name, value):
        self.observations.append((name, value))

    def expect(self, cond, prop, kind, msg="", **data):
        """oracle assertion: `cond` is a plain bool (deciding it may have forked the path); assertions of a property that is
        not being decided in this run are not enforced (one harness serves several properties)"""
        if not cond and prop in self.props:
            self.fail(prop, kind, msg, **data)


class SymS(_Base):
    mode = "sym"

    def __init__(self, ctx, props):
        super().__init__(props)
        self.ctx = ctx
        from rp2.rp2_decimal import RP2Decimal  # pylint: disable=import-outside-toplevel

        from . import vf_decimal, vf_time  # pylint: disable=import-outside-toplevel

        self._RP2Decimal = RP2Decimal
        self._vd = vf_decimal
        self._vt = vf_time

    def set_years(self, years):
        self._vt.set_years(years)

    def int(self, name, lo=None, hi=None):
        return self._vt.SymInt(self.ctx.int_var(name, lo, hi))

    def _poly(self, i):
        return self._vt._p(i)  # pylint: disable=protected-access

    def dec(self, i, k):
        return self._RP2Decimal(("grid", self._poly(i), k))

    def ts(self, us, off=0):
        return self._vt.SymDatetime(self._poly(us), self._poly(off))

    def date(self, ordinal):
        if isinstance(ordinal, int):
            return date.fromordinal(ordinal)
        return self._vt.SymDate(self._poly(ordinal))

    def cell(self, i):
        """numeric spreadsheet cell with value i / 10**18"""
        return self._vt.SymFloat(self._poly(i))

    def cell_exact(self, cell):
        """exact value of a numeric cell, for oracle arithmetic"""
        return self._vd.Decimal(("grid", cell.n, self._vt.SymFloat.GRID_K))

    def tscell(self, us, off=0):
        """timestamp cell: any string that parses to this tz-aware instant"""
        return self._vt.SymTsStr(self.ts(us, off))

    def dt(self, us, off=0):
        return self.ts(us, off)

    def ex(self, d):
        """exact (non-quantising) view of a Decimal for oracle arithmetic"""
        if isinstance(d, int):
            return self._vd.Decimal(d)
        return self._vd.Decimal(d)

    def ex_int(self, i, k=0):
        return self._vd.Decimal(("grid", self._poly(i), k))

    def eq(self, a, b, scale=None):
        """exact equality of two oracle values (symbolic mode: exact rational arithmetic; `scale` is only used on real code)"""
        return a == b

    def assume(self, cond):
        if not cond:
            from .engine import PathAbort  # pylint: disable=import-outside-toplevel

            raise PathAbort("assumption")

    def track_rounding(self, on):
        """C04: let every substrate Decimal carry an upper bound on the rounding error of the real `prec`-digit arithmetic"""
        self._vd.TRACK_ERR = bool(on)

    def rounding_within(self, figure, scale, prop, kind, msg, exact=None):
        """assert: the rounding-error bound carried by `figure` is at most 1e-15 x |scale| for every input on this path
        (`scale` is the exact oracle value of the figure itself, which the caller has asserted equal to the figure).
        A relative bound is a plain number; an absolute bound (after a cancellation) is a symbolic value and may need the
        solver - a counterexample is then steered towards digit-rich inputs (every variable ending in ...654321), because
        the bound assumes worst-case rounding and round numbers do not round at all."""
        import z3  # pylint: disable=import-outside-toplevel

        from .engine import Unsupported  # pylint: disable=import-outside-toplevel
        from .poly import zvar  # pylint: disable=import-outside-toplevel

        eb = getattr(figure, "eb", None)
        if eb is None:
            return
        if eb is self._vd.INF:
            raise Unsupported("rounding-error bound of a reported figure is unknown")
        if eb[0] == "rel":
            if eb[1] > Fraction(1, 10**15):
                self.fail(prop, kind, msg + " (relative rounding bound %.3g)" % float(eb[1]))
            return
        self._vd._IN_EB[0] = True
        try:
            tol = self._vd.Decimal(("grid", self._poly(1), 15))
            sc = scale if not scale._cmp0("<", self._vd.Decimal(0)) else -scale
            excess = eb[1]._bin0(sc._bin0(tol, "*"), "-")
            exceeded = excess._cmp0(">", self._vd.Decimal(0))
        finally:
            self._vd._IN_EB[0] = False
        if exceeded:
            m = self._digit_rich_model(excess)
            if m is not None:
                self.ctx.model = m
            self.fail(prop, kind, msg)

    def _digit_rich_model(self, excess):
        """a model of the path condition under which the bound is exceeded and whose values have many significant digits
        (extremes and digit-rich numbers are tried and checked by evaluation; the solver's own models are round numbers)"""
        import random  # pylint: disable=import-outside-toplevel

        import z3  # pylint: disable=import-outside-toplevel

        from .poly import zvar  # pylint: disable=import-outside-toplevel

        ctx = self.ctx
        conj = z3.And(ctx.asserted) if ctx.asserted else z3.BoolVal(True)
        rnd = random.Random(20260930)
        digits = "98765432109876543210987654321098765"
        opts = {}
        for n in ctx.base_vars:
            b = ctx.var_bound.get(n) or 10**6
            nd = len(str(b))
            cands = {1, 7, 654321, int(digits[: max(1, nd // 2)]), int(digits[: max(1, nd - 1)]), int(digits[: max(1, nd - 3)])}
            opts[n] = sorted(c for c in cands if c <= b) or [1]
        best, best_score = None, None
        for _ in range(3000):
            m = {n: rnd.choice(opts[n]) for n in ctx.base_vars}
            try:
                m = ctx._complete(dict(m))  # pylint: disable=protected-access
                val = excess.eval(m)
            except (ZeroDivisionError, KeyError):
                continue
            if val <= 0:
                continue
            subs = [(zvar(k), z3.IntVal(v)) for k, v in m.items()]
            if not z3.is_true(z3.simplify(z3.substitute(conj, *subs))):
                continue
            score = sum(len(str(v).rstrip("0")) for v in m.values())
            if best is None or score > best_score:
                best, best_score = m, score
        return best

    def assume_cmp(self, a, op, b):
        """a op b as a precondition on integers (no fork)"""
        self.ctx.assume_sign(self._poly(a) - self._poly(b), op)

    def assume_in(self, a, values):
        import z3  # pylint: disable=import-outside-toplevel

        e = self._poly(a).z3()
        self.ctx.assume_z3(z3.Or([e == v for v in values]))

    def value(self, i):
        """exhaustive realisation of a symbolic int"""
        if isinstance(i, int):
            return i
        return i.value()

    def fail(self, prop, kind, msg="", **data):
        from .engine import Violation as EV  # pylint: disable=import-outside-toplevel

        raise EV(prop, kind, msg, data)

    def note(self, key, n=1):
        self.ctx.note(key, n)


class ConS(_Base):
    mode = "con"

    def __init__(self, model, props):
        super().__init__(props)
        self.model = model
        self.notes = {}
        from rp2.rp2_decimal import RP2Decimal  # pylint: disable=import-outside-toplevel

        self._RP2Decimal = RP2Decimal

    def set_years(self, years):
        pass

    def int(self, name, lo=None, hi=None):
        v = self.model[name]
        if (lo is not None and v < lo) or (hi is not None and v > hi):
            raise Abort("model value of %s outside its declared range" % name)
        return v

    def dec(self, i, k):
        return self._RP2Decimal(dec_str(i, k))

    def ts(self, us, off=0):
        return ts_str(us, off)

    def date(self, ordinal):
        return date.fromordinal(ordinal)

    def cell(self, i):
        """the exact real the solver chose (i / 1e18) as a decimal.Decimal: '%.11f' of it is correctly rounded, exactly what the
        symbolic model assumes of a numeric cell (a float cell is an exact dyadic rational treated the same way by '%f');
        a Python float could not carry the chosen value (16 significant digits) and would make replays disagree on ties"""
        import decimal  # pylint: disable=import-outside-toplevel

        return decimal.Context(prec=80).scaleb(decimal.Decimal(i), -18)

    def cell_exact(self, cell):
        return Fraction(cell)

    def tscell(self, us, off=0):
        return ts_str(us, off)

    def dt(self, us, off=0):
        return (_E + timedelta(microseconds=us)).astimezone(timezone(timedelta(minutes=off_min(off))))

    def ex(self, d):
        return Fraction(d)

    def ex_int(self, i, k=0):
        return Fraction(i, 10**k)

    def eq(self, a, b, scale=None):
        """equality up to the real decimal module's 31-digit rounding of intermediate results; `scale`: magnitude of the
        operands the values were computed from (a difference of nearly equal numbers keeps their absolute rounding error)"""
        a, b = Fraction(a), Fraction(b)
        ref = abs(a) + abs(b) + (abs(Fraction(scale)) if scale is not None else 0)
        return a == b or abs(a - b) <= Fraction(1, 10**22) * ref + Fraction(1, 10**28)

    def assume(self, cond):
        if not cond:
            raise Abort("assumption")

    def track_rounding(self, on):
        pass

    def rounding_within(self, figure, scale, prop, kind, msg, exact=None):
        """real arithmetic: the figure itself must be within 1e-15 x |scale| of the exact value"""
        if exact is not None and abs(Fraction(figure) - Fraction(exact)) > Fraction(1, 10**15) * abs(Fraction(scale)):
            self.fail(prop, kind, msg)

    def assume_cmp(self, a, op, b):
        ok = {"<": a < b, "<=": a <= b, "==": a == b, "!=": a != b, ">": a > b, ">=": a >= b}[op]
        if not ok:
            raise Abort("assumption")

    def assume_in(self, a, values):
        if a not in values:
            raise Abort("assumption")

    def value(self, i):
        return i

    def fail(self, prop, kind, msg="", **data):
        raise Violation(prop, kind, msg, data)

    def note(self, key, n=1):
        self.notes[key] = self.notes.get(key, 0) + n


def off_min(off):
    return int(off)


def dec_str(i, k):
    s = "-" if i < 0 else ""
    i = abs(i)
    if k == 0:
        return s + str(i)
    d = str(i).rjust(k + 1, "0")
    return s + d[:-k] + "." + d[-k:]


def ts_str(us, off_min=0):
    dt = (_E + timedelta(microseconds=us)).astimezone(timezone(timedelta(minutes=off_min)))
    return dt.strftime("%Y-%m-%d %H:%M:%S.%f %z")


def plain(v, model=None):
    """JSON-able exact rendering of an observed value (symbolic values are evaluated under `model`)"""
    from decimal import Decimal as RealDecimal  # pylint: disable=import-outside-toplevel

    if v is None or isinstance(v, (bool, str)) and not hasattr(v, "parts"):
        return v
    if isinstance(v, (list, tuple)):
        return [plain(x, model) for x in v]
    if isinstance(v, dict):
        return {str(k): plain(x, model) for k, x in v.items()}
    if hasattr(v, "eval") and model is not None and not isinstance(v, (int, Fraction)):
        return plain(v.eval(model))
    if isinstance(v, RealDecimal):
        v = Fraction(v)
    if isinstance(v, int):
        return v
    if isinstance(v, Fraction):
        return v.numerator if v.denominator == 1 else "%d/%d" % (v.numerator, v.denominator)
    if isinstance(v, datetime):
        return v.astimezone(timezone.utc).isoformat() + "|" + str(v.utcoffset())
    if isinstance(v, date):
        return v.isoformat()
    if hasattr(v, "name") and hasattr(v, "value"):
        return str(v.name)
    return str(v)


def _frac(x):
    if isinstance(x, int):
        return Fraction(x)
    if isinstance(x, str) and "/" in x:
        a, b = x.split("/")
        try:
            return Fraction(int(a), int(b))
        except ValueError:
            return None
    return None


def same(a, b, rel=Fraction(1, 10**24)):
    """equality of two plain() renderings; rationals agree up to the real module's 31-digit rounding"""
    if isinstance(a, list) and isinstance(b, list):
        return len(a) == len(b) and all(same(x, y, rel) for x, y in zip(a, b))
    if isinstance(a, dict) and isinstance(b, dict):
        return a.keys() == b.keys() and all(same(a[k], b[k], rel) for k in a)
    if isinstance(a, bool) or isinstance(b, bool):
        return a is b
    fa, fb = _frac(a), _frac(b)
    if fa is not None and fb is not None:
        if fa == fb:
            return True
        return abs(fa - fb) <= rel * max(abs(fa), abs(fb))
    return a == b
