"""Path explorer: eager decisions with z3, exploration by re-execution (DFS over decision prefixes).

A harness is an ordinary Python callable that runs real rp2 code on substrate values.  Every comparison on a
symbolic value ends in Ctx.sign_in(), which asks z3 which outcomes are feasible under the path condition,
follows the one the carried model satisfies and queues the other one (prefix + model) for re-execution.
"""
import time

import z3

from .poly import Poly, zvar

LT, EQ, GT = 1, 2, 4
ALL = 7
OPS = {"<": LT, "<=": LT | EQ, "==": EQ, "!=": LT | GT, ">": GT, ">=": GT | EQ}


def flip(mask):
    return (mask & EQ) | (GT if mask & LT else 0) | (LT if mask & GT else 0)


def signmask(v):
    return LT if v < 0 else (EQ if v == 0 else GT)


_CC = {}


def cond(p, mask):
    key = (p.key, mask)
    r = _CC.get(key)
    if r is None:
        e = p.z3()
        if mask == LT:
            r = e < 0
        elif mask == LT | EQ:
            r = e <= 0
        elif mask == EQ:
            r = e == 0
        elif mask == LT | GT:
            r = e != 0
        elif mask == GT:
            r = e > 0
        elif mask == GT | EQ:
            r = e >= 0
        else:
            raise AssertionError(mask)
        _CC[key] = r
    return r


class PathAbort(BaseException):
    """the path violates a harness assumption (or is infeasible): dropped, not counted as explored behaviour"""


class Unsupported(BaseException):
    """the substrate cannot encode an operation: the path (and the check) is inconclusive"""


class Inconclusive(BaseException):
    """solver returned unknown where an answer was needed"""


class HarnessError(BaseException):
    """re-execution diverged from its prefix, or similar internal fault"""


class Violation(BaseException):
    def __init__(self, prop, kind, msg="", data=None):
        super().__init__("%s %s %s" % (prop, kind, msg))
        self.prop = prop
        self.kind = kind
        self.msg = msg
        self.data = data or {}


class Ctx:
    mode = "sym"

    def __init__(self, prefix, model, stats, timeout_ms=10000):
        self.prefix = prefix
        self.pos = 0
        self.decisions = []
        self.alternatives = []
        self.solver = z3.Solver()
        self.solver.set("timeout", timeout_ms)
        self.timeout_ms = timeout_ms
        self.model = model  # dict name -> int, satisfying the whole prefix (or None)
        self.known = {}
        self.stats = stats
        self.ndef = 0
        self.base_vars = []
        self.posvars = set()
        self.defs = []
        self.observations = []
        self.notes = {}
        self.divcache = {}
        self.asserted = []
        self.var_bound = {}  # name -> max |value| of a declared input variable (None when unbounded)

    # ---- variables and assumptions
    def int_var(self, name, lo=None, hi=None):
        p = Poly.var(name)
        self.base_vars.append(name)
        self.var_bound[name] = max(abs(lo), abs(hi)) if lo is not None and hi is not None else None
        if lo is not None:
            self._add(zvar(name) >= lo)
            if lo > 0:
                self.posvars.add(name)
        if hi is not None:
            self._add(zvar(name) <= hi)
        if self.model is not None and name not in self.model:
            # a variable the parent path did not have yet at fork time: the carried model is partial
            self.model = None
        return p

    def _add(self, c):
        self.solver.add(c)
        self.asserted.append(c)

    def assume_z3(self, c):
        """harness precondition given as a z3 Bool over base variables (before the first decision)"""
        self._add(c)
        if self.model is not None:
            self.model = self.model if self._holds(c) else None

    def _holds(self, c):
        try:
            subs = [(zvar(n), z3.IntVal(v)) for n, v in self.model.items()]
            return z3.is_true(z3.simplify(z3.substitute(c, *subs)))
        except Exception:  # pylint: disable=broad-except
            return False

    def assume_sign(self, p, op):
        """assume p op 0 (harness precondition); recorded as sign knowledge, no decision is consumed"""
        mask = OPS[op]
        if p.is_const():
            if not signmask(p.const_value()) & mask:
                raise PathAbort("false assumption")
            return
        q, fl = p.normalized()
        if fl:
            mask = flip(mask)
        old = self.known.get(q.key, ALL)
        new = old & mask
        if not new:
            raise PathAbort("contradictory assumption")
        if new == old:
            return
        self.known[q.key] = new
        self._add(cond(q, new))
        if self.model is not None and not signmask(q.eval(self.model)) & new:
            self.model = None

    def ensure_model(self):
        if self.model is None:
            r = self._check()
            if r == z3.unsat:
                raise PathAbort("infeasible")
            if r != z3.sat:
                raise Inconclusive("unknown while (re)building the model of a path")
            self.model = self._complete(self._extract())
        return self.model

    def _check(self, *assumptions):
        t = time.time()
        r = self.solver.check(*assumptions)
        dt = time.time() - t
        self.stats["queries"] += 1
        self.stats["solver_s"] += dt
        if dt > self.stats.get("max_query_s", 0):
            self.stats["max_query_s"] = dt
        k = str(r)
        self.stats[k] = self.stats.get(k, 0) + 1
        if r == z3.unknown:
            r = self._retry(assumptions)
        return r

    def _retry(self, assumptions):
        """second opinion for an unknown: fresh solver, longer timeout, then cvc5 on the SMT-LIB2 dump"""
        s = z3.SolverFor("QF_NIA")
        s.set("timeout", self.timeout_ms * 3)
        for c in self.asserted:
            s.add(c)
        t = time.time()
        r = s.check(*assumptions)
        self.stats["solver_s"] += time.time() - t
        self.stats["retries"] = self.stats.get("retries", 0) + 1
        if r != z3.unknown:
            self.stats["retry_" + str(r)] = self.stats.get("retry_" + str(r), 0) + 1
            if r == z3.sat:
                self._retry_model = s.model()
            return r
        try:
            from . import second_solver  # pylint: disable=import-outside-toplevel

            for a in assumptions:
                s.add(a)
            r2 = second_solver.decide(s.to_smt2(), self.timeout_ms * 3)
            self.stats["cvc5_" + r2] = self.stats.get("cvc5_" + r2, 0) + 1
            if r2 == "unsat":
                return z3.unsat
        except Exception:  # pylint: disable=broad-except
            pass
        return z3.unknown

    def _extract(self):
        m = getattr(self, "_retry_model", None)
        if m is not None:
            self._retry_model = None
        else:
            m = self.solver.model()
        out = {}
        for d in m.decls():
            v = m[d]
            if z3.is_int_value(v):
                out[d.name()] = v.as_long()
        for n in self.base_vars:
            if n not in out:
                out[n] = m.eval(zvar(n), model_completion=True).as_long()
        return out

    def define(self, hint, constraint_fn, pyfun):
        """fresh Int variable v with constraint_fn(v) asserted; the model is extended with pyfun(model)"""
        self.ndef += 1
        name = "%s!%d" % (hint, self.ndef)
        self._add(constraint_fn(zvar(name)))
        self.defs.append((name, pyfun))
        if self.model is not None and name not in self.model:
            self.model[name] = pyfun(self.model)
        return Poly.var(name)

    def _complete(self, model):
        for name, pyfun in self.defs:
            if name not in model:
                model[name] = pyfun(model)
        return model

    # ---- decisions
    def _quick_sign(self, p):
        """sign of p when every monomial is a product of positive variables and all coefficients agree"""
        pos = neg = False
        pv = self.posvars
        for k, c in p.m.items():
            for v in k:
                if v not in pv:
                    return 0
            if c > 0:
                pos = True
            else:
                neg = True
            if pos and neg:
                return 0
        return GT if pos else LT

    def sign_in(self, d, T, aux=None, force=False):
        """decide (eagerly) whether sign(d) is in the mask T.
        force: always record a decision (value_of: the sequence of decisions must not depend on the carried model)"""
        if d.is_const():
            return bool(signmask(d.const_value()) & T)
        p, fl = d.normalized()
        if fl:
            T = flip(T)
        possible = self.known.get(p.key)
        if possible is None:
            q = self._quick_sign(p) if not force else 0
            if q:
                self.known[p.key] = q
                return bool(q & T)
            possible = ALL
        tset, fset = possible & T, possible & ~T & ALL
        if not force:
            if not fset:
                return True
            if not tset:
                return False
        k = self.pos
        self.pos += 1
        h = hash(p.key) & 0xFFFFFFFF
        if k < len(self.prefix):
            taken, added, ph, _aux = self.prefix[k]
            if ph != h or taken not in (tset, fset):
                raise HarnessError("re-execution diverged from its prefix at decision %d" % k)
            if added:
                self._add(cond(p, taken))
            self.known[p.key] = taken
            self.decisions.append((taken, added, h, _aux))
            return taken == tset
        if force and (not fset or not tset):
            # already decided by what is known: record it so that a re-execution consumes the same decision
            mine = tset or fset
            self.decisions.append((mine, False, h, aux))
            return mine == tset
        model = self.ensure_model()
        s = signmask(p.eval(model))
        if not s & possible:
            raise HarnessError("carried model out of sync with the path condition")
        mine, other = (tset, fset) if s & tset else (fset, tset)
        r = self._check(cond(p, other))
        if r == z3.unsat:
            self.decisions.append((mine, False, h, aux))
        else:
            om = None
            if r == z3.sat:
                om = self._complete(self._extract())
            else:
                self.stats["unknown_forks"] = self.stats.get("unknown_forks", 0) + 1
            self.alternatives.append((self.decisions + [(other, True, h, aux)], om))
            self._add(cond(p, mine))
            self.decisions.append((mine, True, h, aux))
        self.known[p.key] = mine
        self.stats["decisions"] = self.stats.get("decisions", 0) + 1
        return mine == tset

    def cmp(self, a, op, b):
        return self.sign_in(a - b, OPS[op])

    def value_of(self, p):
        """exhaustive realisation of an integer polynomial: returns a concrete int, forking over every feasible value"""
        guard = 0
        while True:
            if p.is_const():
                return p.const_value()
            if self.pos < len(self.prefix):
                v = self.prefix[self.pos][3]  # the candidate tried at this decision on the path being re-executed
                if v is None:
                    raise HarnessError("re-execution diverged from its prefix at decision %d (value_of)" % self.pos)
            else:
                v = p.eval(self.ensure_model())
            if self.sign_in(p - v, EQ, aux=v, force=True):
                return v
            guard += 1
            if guard > 4096:
                raise Unsupported("value_of: domain too large to enumerate")

    # ---- formula-style assertions
    def find(self, violation):
        """violation: z3 Bool.  Returns a model (dict) under which path condition and violation hold, or None."""
        r = self._check(violation)
        if r == z3.unknown:
            raise Inconclusive(str(violation)[:300])
        if r == z3.sat:
            return self._complete(self._extract())
        return None

    # ---- reporting
    def observe(self, name, value):
        self.observations.append((name, value))

    def note(self, key, value=1):
        self.notes[key] = self.notes.get(key, 0) + value

    def fail(self, prop, kind, msg="", **data):
        raise Violation(prop, kind, msg, data)


CUR = None


def cur():
    if CUR is None:
        raise Unsupported("symbolic value used outside an exploration")
    return CUR


def new_stats():
    return {"queries": 0, "solver_s": 0.0, "paths": 0, "aborted": 0, "decisions": 0}


def explore(harness, stack=None, max_paths=10**9, timeout_ms=10000, deadline=None, on_path=None):
    """DFS over decision prefixes.  harness(ctx) -> result.  Returns (results, leftover_stack, stats)."""
    global CUR
    stats = new_stats()
    stack = list(stack) if stack else [([], None)]
    results = []
    while stack and stats["paths"] < max_paths and (deadline is None or time.time() < deadline):
        prefix, model = stack.pop()
        ctx = Ctx(prefix, dict(model) if model is not None else None, stats, timeout_ms)
        CUR = ctx
        res = None
        try:
            res = {"status": "ok", "value": harness(ctx)}
        except PathAbort:
            stats["aborted"] += 1
            res = {"status": "abort"}
        except Violation as v:
            try:
                model_now = dict(ctx.ensure_model())
            except (Inconclusive, PathAbort):
                model_now = None
            res = {"status": "violation", "prop": v.prop, "kind": v.kind, "msg": v.msg, "data": v.data, "model": model_now}
        except Unsupported as u:
            res = {"status": "unsupported", "msg": str(u)}
        except Inconclusive as u:
            res = {"status": "inconclusive", "msg": str(u)}
        except HarnessError:
            raise
        except Exception as e:  # pylint: disable=broad-except
            import traceback  # pylint: disable=import-outside-toplevel

            try:
                model_now = dict(ctx.ensure_model())
            except (Inconclusive, PathAbort):
                model_now = None
            res = {"status": "exception", "type": type(e).__name__, "msg": str(e)[:500], "trace": traceback.format_exc()[-3000:], "model": model_now}
        finally:
            CUR = None
        res["decisions"] = len(ctx.decisions)
        res["notes"] = ctx.notes
        if on_path is not None:
            on_path(ctx, res)
        results.append(res)
        stats["paths"] += 1
        stack.extend(ctx.alternatives)
    return results, stack, stats
