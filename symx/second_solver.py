"""Second opinion on an SMT-LIB2 query with cvc5 (python wheel)."""


def decide(smt2_text, timeout_ms=30000):
    import cvc5  # pylint: disable=import-outside-toplevel

    tm = cvc5.TermManager() if hasattr(cvc5, "TermManager") else None
    slv = cvc5.Solver(tm) if tm is not None else cvc5.Solver()
    slv.setOption("tlimit-per", str(int(timeout_ms)))
    slv.setOption("produce-models", "false")
    slv.setLogic("QF_NIA")
    parser = cvc5.InputParser(slv)
    parser.setStringInput(cvc5.InputLanguage.SMT_LIB_2_6, smt2_text + "\n(check-sat)\n", "q")
    sm = parser.getSymbolManager()
    result = "unknown"
    while True:
        cmd = parser.nextCommand()
        if cmd.isNull():
            break
        out = cmd.invoke(slv, sm)
        out = str(out).strip()
        if out in ("sat", "unsat", "unknown"):
            result = out
    return result
