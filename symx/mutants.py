"""In-memory mutants of the loaded rp2 modules (never written to /repo): the sensitivity self-test of the checks.

Each mutant is (module, old_text, new_text, property it must break).  `./check <ID> --mutant <name>` must report it.
"""

MUTANTS = {
    # name: (module, old, new, props)
    "c05_gt": ("rp2.gain_loss", ".days >= self.configuration.country", ".days > self.configuration.country", ["C05"]),
    "c05_date_only": (
        "rp2.gain_loss",
        "(self.taxable_event.timestamp - self.acquired_lot.timestamp).days >=",
        "(self.taxable_event.timestamp.date() - self.acquired_lot.timestamp.date()).days >=",
        ["C05"],
    ),
    "c05_es_period": ("rp2.plugin.country.es", "return 365", "return 366", ["C05"]),
    "c01_fifo_reversed": ("rp2.plugin.accounting_method.fifo", "AcquiredLotCandidatesOrder.OLDER_TO_NEWER", "AcquiredLotCandidatesOrder.NEWER_TO_OLDER", ["C01"]),
    "c01_hifo_sign": ("rp2.plugin.accounting_method.hifo", "AcquiredLotSortKey(-lot.spot_price,", "AcquiredLotSortKey(lot.spot_price,", ["C01"]),
    "c01_d1_regression": (
        "rp2.abstract_accounting_method",
        "            self.add_selected_lot_to_heap(lot_candidates.acquired_lot_heap, selected_acquired_lot)\n            return AcquiredLotAndAmount",
        "            if selected_acquired_lot_amount > taxable_event_amount:\n                self.add_selected_lot_to_heap(lot_candidates.acquired_lot_heap, selected_acquired_lot)\n            return AcquiredLotAndAmount",
        ["C01", "C02"],
    ),
    "c02_to_index_plus1": ("rp2.accounting_engine", "lot_candidates.set_to_index(acquired_lot_and_index.index)", "lot_candidates.set_to_index(min(acquired_lot_and_index.index + 1, len(self._AccountingEngine__acquired_lot_list) - 1))", ["C02", "C09"]),
    "c03_d7_regression": ("rp2.intra_transaction", "return self.crypto_fee > ZERO", "return self.fiat_fee > ZERO", ["C02", "C03", "C07"]),
    "c03_earn_set": ("rp2.entry_types", "    TransactionType.HARDFORK,\n    TransactionType.INCOME,", "    TransactionType.INCOME,", ["C03"]),
    "c03_out_type": ("rp2.out_transaction", "            TransactionType.LOST,\n", "            TransactionType.LOST,\n            TransactionType.MOVE,\n", ["C03"]),
    "c03_skip_intra": ("rp2.tax_engine", "        input_data.unfiltered_intra_transaction_set,\n    ]:", "    ]:", ["C03"]),
    "c06_to_date_excl": ("rp2.computed_data", "            if gain_loss.taxable_event.timestamp.date() > to_date:\n                break\n            key = _YearlyGainLossId(", "            if gain_loss.taxable_event.timestamp.date() >= to_date:\n                break\n            key = _YearlyGainLossId(", ["C06"]),
    "c06_year_of_lot": ("rp2.computed_data", "                gain_loss.taxable_event.timestamp.year,\n                gain_loss.asset,", "                (gain_loss.acquired_lot or gain_loss.taxable_event).timestamp.year,\n                gain_loss.asset,", ["C06"]),
    "c06_no_long_key": ("rp2.computed_data", "                gain_loss.is_long_term_capital_gains(),\n            )\n            value = summaries", "                False,\n            )\n            value = summaries", ["C06"]),
    "c06_from_year_gt": ("rp2.computed_data", "if y.year >= from_year]", "if y.year > from_year]", ["C06", "C10"]),
    "c07_sent_no_fee": ("rp2.balance", "sent_balances.get(from_account, ZERO) + out_transaction.crypto_out_no_fee + out_transaction.crypto_fee", "sent_balances.get(from_account, ZERO) + out_transaction.crypto_out_no_fee", ["C07"]),
    "c07_recv_sent": ("rp2.balance", "final_balances.get(to_account, ZERO) + intra_transaction.crypto_received", "final_balances.get(to_account, ZERO) + intra_transaction.crypto_sent", ["C07"]),
    "c07_to_date_ge": ("rp2.balance", "            if transaction.timestamp.date() > to_date:\n                break", "            if transaction.timestamp.date() >= to_date:\n                break", ["C07"]),
    "c08_final_only": ("rp2.balance", "                    and final_balances[from_account] < ZERO\n                    and not configuration.allow_negative_balances\n                ):\n                    raise RP2ValueError(\n                        f'{out_transaction.asset}", "                    and final_balances[from_account] < ZERO\n                    and not configuration.allow_negative_balances and transaction is transactions[-1]\n                ):\n                    raise RP2ValueError(\n                        f'{out_transaction.asset}", ["C08"]),
    "c08_sheet_order": ("rp2.balance", "        transactions = sorted(\n            transactions,\n            key=_transaction_time_sort_key,\n        )", "        transactions = sorted(transactions, key=lambda x: x.row)", ["C08"]),
    "c08_ignore_n": ("rp2.balance", "                    and final_balances[from_account] < ZERO\n                    and not configuration.allow_negative_balances\n                ):\n                    raise RP2ValueError(\n                        f'{intra_transaction.asset}", "                    and final_balances[from_account] < ZERO\n                ):\n                    raise RP2ValueError(\n                        f'{intra_transaction.asset}", ["C08"]),
    "c08_tolerance_1e-8": ("rp2.balance", 'Decimal("1." + "0" * 10)', 'Decimal("1." + "0" * 8)', ["C08"]),
    "c09_avl_le": ("rp2.accounting_engine", "self._get_avl_node_key_with_max_disambiguator(taxable_event.timestamp)\n        )", "self._get_avl_node_key_with_max_disambiguator(taxable_event.timestamp + __import__('datetime').timedelta(days=400))\n        )", ["C09", "C02"]),
    "c09_ppu_no_todate": ("rp2.computed_data", "            if entry.timestamp.date() > to_date:\n                break\n            transaction: InTransaction", "            transaction: InTransaction", ["C09", "C10"]),
    "c10_from_incl": ("rp2.abstract_entry_set", "if result.timestamp.date() >= self.__entry_set.from_date:", "if result.timestamp.date() > self.__entry_set.from_date:", ["C10"]),
    "c10_to_excl": ("rp2.abstract_entry_set", "if result.timestamp.date() > self.__entry_set.to_date:", "if result.timestamp.date() >= self.__entry_set.to_date:", ["C10", "C09"]),
    "c10_filter_lots": ("rp2.tax_engine", "iter(cast(Iterable[InTransaction], input_data.unfiltered_in_transaction_set))", "iter(cast(Iterable[InTransaction], input_data.filtered_in_transaction_set))", ["C10"]),
    "c10_numbering_from": ("rp2.gain_loss_set", "            if gain_loss.timestamp.date() > self.to_date:\n                break\n", "            if gain_loss.timestamp.date() > self.to_date:\n                break\n            if gain_loss.timestamp.date() < self.from_date:\n                continue\n", ["C10"]),
    "c11_8f": ("rp2.ods_parser", 'RP2Decimal(f"{value:.11f}")', 'RP2Decimal(f"{value:.8f}")', ["C11"]),
    "c11_skip_first_row": ("rp2.ods_parser", "elif current_table_type is not None and current_table_row_count > 1:", "elif current_table_type is not None and current_table_row_count > 2:", ["C11"]),
    "c11_art_fee_value": ("rp2.ods_parser", "                crypto_fee=transaction.crypto_fee,\n                row=configuration.get_new_artificial_id(),", "                crypto_fee=transaction.fiat_fee,\n                row=configuration.get_new_artificial_id(),", ["C11"]),
    "c11_split_drops_fiat": ("rp2.ods_parser", "                fiat_in_with_fee=transaction.fiat_in_with_fee,\n", "", ["C11"]),
    "c11_d9_regression": ("rp2.ods_parser", '        argument_pack.setdefault("spot_price", None)\n', "", ["C11"]),
    "c12_no_asset_check": ("rp2.abstract_entry_set", "        if entry.asset != self.asset:", "        if False:", ["C12"]),
    "c12_accept_neg_fee": ("rp2.configuration", "        result: RP2Decimal = cls.type_check_decimal(name, value)\n        if result < ZERO:", "        result: RP2Decimal = cls.type_check_decimal(name, value)\n        if result < ZERO and non_zero:", ["C12"]),
    "c12_missing_end": ("rp2.ods_parser", "    if current_table_type is not None:\n        raise RP2ValueError(f\"TABLE END not found", "    if False:\n        raise RP2ValueError(f\"TABLE END not found", ["C12"]),
    "c12_d10_regression": ("rp2.ods_parser", "if current_table_type in seen_table_types:", "if current_table_type and not unfiltered_transaction_sets[current_table_type].is_empty():", ["C12"]),
    "c12_recv_gt_sent": ("rp2.intra_transaction", "        if self.__crypto_sent < self.__crypto_received:", "        if False:", ["C12"]),
    "c04_cost_no_fee": ("rp2.gain_loss", "        return (self.acquired_lot.fiat_in_with_fee * self.crypto_amount) / self.acquired_lot.crypto_balance_change\n\n    @property\n    def fiat_gain", "        return (self.acquired_lot.fiat_in_no_fee * self.crypto_amount) / self.acquired_lot.crypto_balance_change\n\n    @property\n    def fiat_gain", ["C04"]),
    "c04_prec15": ("rp2.rp2_decimal", "getcontext().prec = CRYPTO_DECIMALS + 18", "getcontext().prec = CRYPTO_DECIMALS + 2", ["C04"]),
    "c04_quantize_cost": ("rp2.gain_loss", "        return self.taxable_event_fiat_amount_with_fee_fraction - self.fiat_cost_basis", "        return self.taxable_event_fiat_amount_with_fee_fraction - self.fiat_cost_basis.quantize(__import__('rp2.rp2_decimal').rp2_decimal.FIAT_DECIMAL_MASK)", ["C04"]),
    "c04_no_float_trap": ("rp2.rp2_decimal", "getcontext().traps[FloatOperation] = True", "getcontext().traps[FloatOperation] = False", ["C04"]),
    "c04_out_fee_in_proceeds": ("rp2.out_transaction", "        return self.fiat_out_no_fee\n\n    @property\n    def crypto_deduction", "        return self.fiat_out_with_fee\n\n    @property\n    def crypto_deduction", ["C04"]),
    "c04_supplied_ignored": ("rp2.in_transaction", "        if fiat_in_with_fee is None:\n            self.__fiat_in_with_fee = self.__fiat_in_no_fee + self.__fiat_fee", "        if fiat_in_with_fee is None or True:\n            self.__fiat_in_with_fee = self.__fiat_in_no_fee + self.__fiat_fee", ["C04"]),
    "c13_gain_col": ("rp2.plugin.report.rp2_full_report", "self._fill_cell(sheet, row_index, 3, gain_loss.fiat_gain, visual_style=transparent_style, data_style=\"fiat\")", "self._fill_cell(sheet, row_index, 3, gain_loss.fiat_cost_basis, visual_style=transparent_style, data_style=\"fiat\")", ["C13"]),
    "c13_total_by_exchange": ("rp2.plugin.report.rp2_full_report", "            value = totals.setdefault(balance.holder, _ZERO)\n            value += balance.final_balance\n            totals[balance.holder] = value", "            value = totals.setdefault(balance.holder, _ZERO)\n            value += balance.acquired_balance\n            totals[balance.holder] = value", ["C13"]),
    "c13_d2_regression": ("rp2.plugin.report.rp2_full_report", "        if _AssetAndYear(asset, year) not in self.__tax_sheet_year_2_row:", "        if False:", ["C13", "C16"]),
    "c13_d12_regression": ("rp2.plugin.report.abstract_ods_generator", "next(iter(years_2_accounting_method_names.values())) if len(years_2_accounting_method_names) == 1", "years_2_accounting_method_names[MIN_DATE.year] if len(years_2_accounting_method_names) == 1", ["C13", "C16"]),
    "c19_row_plus2": ("rp2.plugin.report.rp2_full_report", "            self.__in_out_sheet_transaction_2_row[transaction] = row_index + 1\n\n            previous_transaction = transaction", "            self.__in_out_sheet_transaction_2_row[transaction] = row_index + 2\n\n            previous_transaction = transaction", ["C19"]),
    "c19_d4_regression": ("rp2.plugin.report.rp2_full_report", "        self.__in_out_sheet_transaction_2_row = {}\n        transaction_sheet_name", "        transaction_sheet_name", ["C19"]),
    "c14_gift_sheet": ("rp2.plugin.report.us.tax_report_us", "    SheetNames.GIFTS.value: (TransactionType.GIFT,),", "    SheetNames.GIFTS.value: (),\n", ["C14"]),
    "c14_d6_regression": ("rp2.plugin.report.ie.tax_report_ie", "        TransactionType.FEE,\n        TransactionType.LOST,\n", "        TransactionType.FEE,\n", ["C14"]),
    "c14_row_not_advanced": ("rp2.plugin.report.us.tax_report_us", "            row_indexes[sheet.name] = row_index + 1", "            row_indexes[sheet.name] = row_index + (1 if asset != \"B2\" else 0)", ["C14"]),
    "c15_holder_cost": ("rp2.plugin.report.open_positions", "holder_cost_basis: RP2Decimal = holder_crypto_balance * unit_cost_basis", "holder_cost_basis: RP2Decimal = holder_crypto_balance * asset_cost_basis", ["C15"]),
    "c15_zero_balance_listed": ("rp2.plugin.report.open_positions", "                if balance_set.final_balance > ZERO:", "                if balance_set.final_balance >= ZERO:", ["C15"]),
    "c15_cost_no_fee": ("rp2.plugin.report.open_positions", "transaction_cost_basis: RP2Decimal = in_transaction.fiat_in_with_fee * (RP2Decimal(\"1\") - sold_percent)", "transaction_cost_basis: RP2Decimal = in_transaction.fiat_in_no_fee * (RP2Decimal(\"1\") - sold_percent)", ["C15"]),
    "c17_row_tiebreak": ("rp2.abstract_entry_set", "    return entry.timestamp\n", "    return (entry.timestamp.date(), -entry.row)\n", ["C17"]),
    "c20_d5_regression": ("rp2.plugin.report.jp.tax_report_jp", "for year, transaction_set in sorted(years_2_transaction_sets.items()):", "for year, transaction_set in years_2_transaction_sets.items():", ["C20"]),
    "c20_day_month": ("rp2.plugin.report.jp.tax_report_jp", "            transaction_month=transaction.timestamp.month,\n            transaction_day=transaction.timestamp.day,\n            transaction_client=transaction.exchange,\n            sales_crypto_amount=transaction.crypto_out_with_fee,", "            transaction_month=transaction.timestamp.day,\n            transaction_day=transaction.timestamp.day,\n            transaction_client=transaction.exchange,\n            sales_crypto_amount=transaction.crypto_out_with_fee,", ["C20"]),
    "c20_summary_sheet_name": ("rp2.plugin.report.jp.tax_report_jp", "f\"='{self.get_tax_sheet_name(asset, year)}'.G{row_index+10}\"", "f\"='{asset}_{year}'.G{row_index+10}\"", ["C20"]),
}


def get(name):
    module, old, new, _props = MUTANTS[name]

    def mut(fullname, src):
        if fullname != module:
            return src
        if old not in src:
            raise RuntimeError("mutant %s does not apply to %s any more" % (name, module))
        return src.replace(old, new)

    return mut
