"""Symbolic stand-ins for int / float cells / datetime / date / timedelta / structured strings.

All of them are real subclasses where rp2 does isinstance checks (datetime, date, float, str); every operation
that is not modelled raises engine.Unsupported (=> inconclusive), never a silently wrong concrete answer.
"""
from datetime import date, datetime, timedelta, timezone
from fractions import Fraction

import z3

from . import engine
from .engine import EQ, OPS, Unsupported
from .poly import Poly

_EPOCH_ORD = date(1970, 1, 1).toordinal()
US_PER_DAY = 86400 * 10**6
US_PER_MIN = 60 * 10**6
YEARS = (2020, 2021, 2022)  # window of local years; harnesses set it and constrain their instants accordingly
_E = datetime(1970, 1, 1, tzinfo=timezone.utc)


def set_years(years):
    global YEARS
    YEARS = tuple(years)


def _c(a, op, b):
    d = a - b
    if d.is_const():
        return bool(engine.signmask(d.const_value()) & OPS[op])
    return engine.cur().sign_in(d, OPS[op])


def _p(x):
    if isinstance(x, Poly):
        return x
    if isinstance(x, SymInt):
        if x.den != 1:
            raise Unsupported("scaled SymInt where an integer is needed")
        return x.p
    return Poly.const(int(x))


def floordiv(p, m, hint="d"):
    """defined variable d = p div m (m > 0 python int), floor semantics"""
    if p.is_const():
        return Poly.const(p.const_value() // m)
    c = engine.cur()
    key = (p.key, m)
    v = c.divcache.get(key)
    if v is None:
        e = p.z3()
        v = c.divcache[key] = c.define(hint, lambda d: z3.And(m * d <= e, e < m * d + m), lambda mdl: p.eval(mdl) // m)
    return v


def _block_inherited(cls, base, keep):
    """every public method of `base` that cls does not override raises Unsupported instead of acting on the dummy payload"""
    for name in dir(base):
        if name.startswith("_") or name in keep or name in cls.__dict__:
            continue
        if callable(getattr(base, name)) or isinstance(getattr(base, name), (property, type(date.year))):

            def make(nm):
                def blocked(self, *a, **k):
                    raise Unsupported("%s.%s is not modelled" % (cls.__name__, nm))

                return blocked

            attr = getattr(base, name)
            if callable(attr):
                setattr(cls, name, make(name))
            else:
                setattr(cls, name, property(make(name)))


class SymInt:
    """p / den with p an integer polynomial and den a positive python int"""

    __slots__ = ("p", "den")

    def __init__(self, p, den=1):
        self.p = p if isinstance(p, Poly) else Poly.const(int(p))
        self.den = den

    @staticmethod
    def _co(o):
        if isinstance(o, SymInt):
            return o
        if isinstance(o, bool):
            return SymInt(Poly.const(int(o)))
        if isinstance(o, int):
            return SymInt(Poly.const(o))
        if isinstance(o, Fraction):
            return SymInt(Poly.const(o.numerator), o.denominator)
        if isinstance(o, float) and not hasattr(o, "vf_float"):
            f = Fraction(o)
            return SymInt(Poly.const(f.numerator), f.denominator)
        return None

    def _pair(self, o):
        o = SymInt._co(o)
        if o is None:
            return None
        if self.den == o.den:
            return self.p, o.p, self.den
        return self.p.scale(o.den), o.p.scale(self.den), self.den * o.den

    def _arith(self, o, f):
        pr = self._pair(o)
        if pr is None:
            return NotImplemented
        a, b, d = pr
        return SymInt(f(a, b), d)

    def __add__(self, o):
        return self._arith(o, lambda a, b: a + b)

    __radd__ = __add__

    def __sub__(self, o):
        return self._arith(o, lambda a, b: a - b)

    def __rsub__(self, o):
        return self._arith(o, lambda a, b: b - a)

    def __mul__(self, o):
        o = SymInt._co(o)
        if o is None:
            return NotImplemented
        return SymInt(self.p * o.p, self.den * o.den)

    __rmul__ = __mul__

    def __neg__(self):
        return SymInt(-self.p, self.den)

    def __pos__(self):
        return self

    def __abs__(self):
        return -self if self < 0 else self

    def __floordiv__(self, m):
        if isinstance(m, int) and m > 0:
            return SymInt(floordiv(self.p, m * self.den))
        raise Unsupported("SymInt // non-constant")

    def __mod__(self, m):
        if isinstance(m, int) and m > 0 and self.den == 1:
            return SymInt(self.p - floordiv(self.p, m).scale(m))
        raise Unsupported("SymInt % non-constant")

    def _cmp(self, op, o):
        pr = self._pair(o)
        if pr is None:
            return NotImplemented
        return _c(pr[0], op, pr[1])

    def __lt__(self, o):
        return self._cmp("<", o)

    def __le__(self, o):
        return self._cmp("<=", o)

    def __gt__(self, o):
        return self._cmp(">", o)

    def __ge__(self, o):
        return self._cmp(">=", o)

    def __eq__(self, o):
        return self._cmp("==", o)

    def __ne__(self, o):
        r = self._cmp("==", o)
        return r if r is NotImplemented else not r

    def __bool__(self):
        return not _c(self.p, "==", Poly.const(0))

    def __hash__(self):
        if self.p.is_const():
            return hash(Fraction(self.p.const_value(), self.den))
        raise Unsupported("hash of a symbolic int")

    def value(self):
        """exhaustive realisation (forks over every feasible value)"""
        v = engine.cur().value_of(self.p) if not self.p.is_const() else self.p.const_value()
        return v if self.den == 1 else Fraction(v, self.den)

    def __index__(self):
        if self.p.is_const() and self.den == 1:
            return self.p.const_value()
        raise Unsupported("index/int of a symbolic int")

    __int__ = __index__

    def __float__(self):
        if self.p.is_const():
            return self.p.const_value() / self.den
        raise Unsupported("float of a symbolic int")

    def eval(self, model):
        return Fraction(self.p.eval(model), self.den)

    def __repr__(self):
        return "SymInt(%r/%d)" % (self.p, self.den)


class SymFloat(float):
    """spreadsheet numeric cell: an arbitrary multiple of 10**-GRID_K (stands for 'any real' at float resolution)"""

    GRID_K = 18
    vf_float = True

    def __new__(cls, n):
        self = float.__new__(cls, 0.0)
        self.n = n  # Poly
        return self

    def __vf_format__(self, spec):
        if spec.endswith("f") and spec.startswith(".") and spec[1:-1].isdigit():
            k = int(spec[1:-1])
            if k <= self.GRID_K:
                from .vf_decimal import Decimal  # pylint: disable=import-outside-toplevel

                return SymNumStr(Decimal(("grid", self.n, self.GRID_K)).quantize(Decimal(("grid", Poly.const(1), k))))
        if spec.endswith("g") and spec.startswith(".") and spec[1:-1].isdigit():
            # N significant digits: the number of decimals depends on the decimal exponent of the value, found by forking
            nsig = max(int(spec[1:-1]), 1)
            from .vf_decimal import Decimal  # pylint: disable=import-outside-toplevel

            if _c(self.n, "==", Poly.const(0)):
                return SymNumStr(Decimal(("grid", Poly.const(0), 0)))
            mag = self.n if _c(self.n, ">", Poly.const(0)) else -self.n
            for e in range(-self.GRID_K, 13):
                # 10^e <= |v| < 10^(e+1)  <=>  mag < 10^(e+1+GRID_K)
                if _c(mag, "<", Poly.const(10 ** (e + 1 + self.GRID_K))):
                    decimals = nsig - 1 - e
                    if decimals >= self.GRID_K:
                        return SymNumStr(Decimal(("grid", self.n, self.GRID_K)))
                    if decimals >= 0:
                        return SymNumStr(Decimal(("grid", self.n, self.GRID_K)).quantize(Decimal(("grid", Poly.const(1), decimals))))
                    q = Decimal(("grid", self.n, self.GRID_K + (-decimals))).quantize(Decimal(("grid", Poly.const(1), 0)))
                    q._mat()
                    return SymNumStr(Decimal(("grid", q.n.scale(10 ** (-decimals)), 0)))
            raise Unsupported("magnitude of a symbolic float outside the modelled range")
        raise Unsupported("format of a symbolic float with spec %r" % spec)

    def _cmp(self, op, o):
        if isinstance(o, SymFloat):
            return _c(self.n, op, o.n)
        if isinstance(o, (int, float)) and not isinstance(o, bool):
            f = Fraction(o) * 10**self.GRID_K
            return _c(self.n.scale(f.denominator), op, Poly.const(f.numerator))
        if isinstance(o, str) or o is None:
            return NotImplemented
        raise Unsupported("comparison of a symbolic float with %s" % type(o).__name__)

    def __lt__(self, o):
        return self._cmp("<", o)

    def __le__(self, o):
        return self._cmp("<=", o)

    def __gt__(self, o):
        return self._cmp(">", o)

    def __ge__(self, o):
        return self._cmp(">=", o)

    def __eq__(self, o):
        r = self._cmp("==", o)
        return False if r is NotImplemented else r

    def __ne__(self, o):
        return not self.__eq__(o)

    def __bool__(self):
        return not _c(self.n, "==", Poly.const(0))

    def __hash__(self):
        raise Unsupported("hash of a symbolic float")

    def __str__(self):
        return "<symfloat>"

    __repr__ = __str__

    def eval(self, model):
        return Fraction(self.n.eval(model), 10**self.GRID_K)


_block_inherited(SymFloat, float, {"vf_float", "eval"})


class SymNumStr(str):
    """the text of a formatted symbolic number; Decimal(...) of it gives the value back"""

    def __new__(cls, dec):
        self = str.__new__(cls, "<symnum>")
        self.dec = dec
        return self

    @property
    def vf_grid(self):
        d = self.dec
        if d.lazy is not None and d.n is None:
            d._mat()
        if not d.is_grid:
            raise Unsupported("formatted quotient")
        return d.n, d.k

    def __eq__(self, o):
        if isinstance(o, str) and not isinstance(o, SymNumStr):
            return False  # never equal to a fixed keyword such as "__unknown"
        raise Unsupported("comparison of formatted symbolic numbers")

    def __ne__(self, o):
        return not self.__eq__(o)

    def __hash__(self):
        raise Unsupported("hash of a formatted symbolic number")


class SymTimedelta:
    def __init__(self, us):
        self.us = us

    @property
    def days(self):
        return SymInt(floordiv(self.us, US_PER_DAY, "days"))

    @property
    def seconds(self):
        return SymInt(floordiv(self.us - floordiv(self.us, US_PER_DAY, "days").scale(US_PER_DAY), 10**6, "secs"))

    def total_seconds(self):
        return SymInt(self.us, 10**6)

    @staticmethod
    def _us(o):
        if isinstance(o, SymTimedelta):
            return o.us
        if isinstance(o, timedelta):
            return Poly.const(o // timedelta(microseconds=1))
        return None

    def _cmp(self, op, o):
        u = SymTimedelta._us(o)
        if u is None:
            return NotImplemented
        return _c(self.us, op, u)

    def __lt__(self, o):
        return self._cmp("<", o)

    def __le__(self, o):
        return self._cmp("<=", o)

    def __gt__(self, o):
        return self._cmp(">", o)

    def __ge__(self, o):
        return self._cmp(">=", o)

    def __eq__(self, o):
        return self._cmp("==", o)

    def __ne__(self, o):
        r = self._cmp("==", o)
        return r if r is NotImplemented else not r

    __hash__ = None

    def __neg__(self):
        return SymTimedelta(-self.us)

    def __add__(self, o):
        u = SymTimedelta._us(o)
        return NotImplemented if u is None else SymTimedelta(self.us + u)

    __radd__ = __add__

    def __sub__(self, o):
        u = SymTimedelta._us(o)
        return NotImplemented if u is None else SymTimedelta(self.us - u)

    def __rsub__(self, o):
        u = SymTimedelta._us(o)
        return NotImplemented if u is None else SymTimedelta(u - self.us)

    def __bool__(self):
        return not _c(self.us, "==", Poly.const(0))


class SymDate(date):
    def __new__(cls, ordinal):
        self = date.__new__(cls, 2000, 1, 1)
        self.o = ordinal  # Poly: proleptic Gregorian ordinal
        return self

    @staticmethod
    def _ord(o):
        if isinstance(o, SymDate):
            return o.o
        if isinstance(o, SymDatetime):
            return None
        if isinstance(o, datetime):
            return None
        if isinstance(o, date):
            return Poly.const(o.toordinal())
        return None

    def _cmp(self, op, o):
        u = SymDate._ord(o)
        if u is None:
            if op == "==":
                return False
            raise TypeError("can't compare date with %s" % type(o).__name__)
        return _c(self.o, op, u)

    def __lt__(self, o):
        return self._cmp("<", o)

    def __le__(self, o):
        return self._cmp("<=", o)

    def __gt__(self, o):
        return self._cmp(">", o)

    def __ge__(self, o):
        return self._cmp(">=", o)

    def __eq__(self, o):
        return self._cmp("==", o)

    def __ne__(self, o):
        return not self._cmp("==", o)

    def __hash__(self):
        raise Unsupported("hash of a symbolic date")

    @property
    def year(self):
        y = getattr(self, "_year", None)
        if y is None:
            y = self._year = self._find_year()
        return y

    def _find_year(self):
        # forks over the window years plus one guard year on each side; anything further out is not modelled
        if self.o.is_const():
            return date.fromordinal(self.o.const_value()).year
        ys = (YEARS[0] - 1,) + tuple(YEARS) + (YEARS[-1] + 1,)
        if _c(self.o, "<", Poly.const(date(ys[0], 1, 1).toordinal())):
            raise Unsupported("date before the modelled window")
        for y in ys:
            if _c(self.o, "<", Poly.const(date(y + 1, 1, 1).toordinal())):
                return y
        raise Unsupported("date after the modelled window")

    def concrete(self):
        """exhaustive realisation as a real date"""
        return date.fromordinal(engine.cur().value_of(self.o))

    @property
    def month(self):
        return self.concrete().month

    @property
    def day(self):
        return self.concrete().day

    def toordinal(self):
        return SymInt(self.o)

    def __sub__(self, o):
        if isinstance(o, timedelta):
            if o.seconds or o.microseconds:
                raise Unsupported("date - fractional timedelta")
            return SymDate(self.o - o.days)
        u = SymDate._ord(o)
        if u is None:
            return NotImplemented
        return SymTimedelta((self.o - u).scale(US_PER_DAY))

    def __rsub__(self, o):
        u = SymDate._ord(o)
        if u is None:
            return NotImplemented
        return SymTimedelta((u - self.o).scale(US_PER_DAY))

    def __add__(self, o):
        if isinstance(o, timedelta) and not o.seconds and not o.microseconds:
            return SymDate(self.o + o.days)
        return NotImplemented

    __radd__ = __add__

    def __vf_format__(self, spec):
        return SymStr([DateFmt(self, spec)])

    def __format__(self, spec):
        return "<symdate>"

    def __str__(self):
        return SymStr([DateFmt(self, "")])

    __repr__ = __str__

    def isoformat(self):
        return SymStr([DateFmt(self, "")])

    def strftime(self, fmt):
        return SymStr([DateFmt(self, fmt)])

    def eval(self, model):
        return date.fromordinal(self.o.eval(model))


_block_inherited(SymDate, date, {"eval", "concrete", "min", "max", "resolution"})


class DateFmt:
    def __init__(self, d, fmt):
        self.d = d
        self.fmt = fmt

    def __repr__(self):
        return "<date:%s>" % self.fmt


class TimePart:
    """a fixed-width big-endian rendering of an instant: ordered like the instant itself"""

    def __init__(self, us_local, fmt):
        self.us = us_local
        self.fmt = fmt

    def __repr__(self):
        return "<time:%s>" % self.fmt


class TsFmt:
    def __init__(self, dt, fmt):
        self.dt = dt
        self.fmt = fmt

    def __repr__(self):
        return "<ts:%s>" % self.fmt


_ORDERED_FORMATS = {"%Y%m%d%H%M%S.%f", "%Y-%m-%d %H:%M:%S.%f", "%Y-%m-%d %H:%M:%S", "%Y%m%d%H%M%S", "%Y-%m-%dT%H:%M:%S.%f"}


class SymDatetime(datetime):
    def __new__(cls, us, off_min=0):
        self = datetime.__new__(cls, 2000, 1, 1, tzinfo=timezone.utc)
        self.us = us if isinstance(us, Poly) else _p(us)  # instant: microseconds since the epoch
        self.off = _p(off_min)  # utc offset in minutes
        self._date = None
        return self

    @staticmethod
    def _inst(o):
        if isinstance(o, SymDatetime):
            return o.us
        if isinstance(o, datetime):
            if o.tzinfo is None:
                raise TypeError("can't compare offset-naive and offset-aware datetimes")
            return Poly.const((o - _E) // timedelta(microseconds=1))
        return None

    def _cmp(self, op, o):
        u = SymDatetime._inst(o)
        if u is None:
            if op == "==":
                return False
            raise TypeError("can't compare datetime with %s" % type(o).__name__)
        return _c(self.us, op, u)

    def __lt__(self, o):
        return self._cmp("<", o)

    def __le__(self, o):
        return self._cmp("<=", o)

    def __gt__(self, o):
        return self._cmp(">", o)

    def __ge__(self, o):
        return self._cmp(">=", o)

    def __eq__(self, o):
        return self._cmp("==", o)

    def __ne__(self, o):
        return not self._cmp("==", o)

    def __hash__(self):
        # equal instants must hash alike: a concrete instant hashes as the real datetime does (so it meets real datetimes
        # in the same container); every symbolic instant falls into one bucket, where the container's == (a symbolic
        # comparison, forking on ties) decides.  A symbolic and a real datetime in one hashed container would not meet:
        # the harnesses build every timestamp of a history through S.ts / the timestamp stub, so they are all symbolic.
        if self.us.is_const():
            return hash(_E + timedelta(microseconds=self.us.const_value()))
        return 0x5D7

    def __sub__(self, o):
        if isinstance(o, SymTimedelta):
            return SymDatetime(self.us - o.us, self.off)
        if isinstance(o, timedelta):
            return SymDatetime(self.us - (o // timedelta(microseconds=1)), self.off)
        u = SymDatetime._inst(o)
        if u is None:
            return NotImplemented
        return SymTimedelta(self.us - u)

    def __rsub__(self, o):
        u = SymDatetime._inst(o)
        if u is None:
            return NotImplemented
        return SymTimedelta(u - self.us)

    def __add__(self, o):
        if isinstance(o, SymTimedelta):
            return SymDatetime(self.us + o.us, self.off)
        if isinstance(o, timedelta):
            return SymDatetime(self.us + (o // timedelta(microseconds=1)), self.off)
        return NotImplemented

    __radd__ = __add__

    def _local_us(self):
        return self.us + self.off.scale(US_PER_MIN)

    def date(self):
        if self._date is None:
            self._date = SymDate(floordiv(self._local_us(), US_PER_DAY, "ord") + _EPOCH_ORD)
        return self._date

    @property
    def year(self):
        return self.date().year

    @property
    def month(self):
        return self.date().month

    @property
    def day(self):
        return self.date().day

    @property
    def tzinfo(self):
        if self.off.is_const():
            return timezone(timedelta(minutes=self.off.const_value()))
        return _SymTz(self.off)

    def utcoffset(self):
        if self.off.is_const():
            return timedelta(minutes=self.off.const_value())
        return SymTimedelta(self.off.scale(US_PER_MIN))

    def astimezone(self, tz=None):
        if tz is timezone.utc:
            return SymDatetime(self.us, 0)
        if isinstance(tz, timezone):
            return SymDatetime(self.us, tz.utcoffset(None) // timedelta(minutes=1))
        raise Unsupported("astimezone(%r)" % (tz,))

    def timestamp(self):
        return SymInt(self.us, 10**6)

    def replace(self, **kw):  # pylint: disable=arguments-differ
        """only tzinfo= is modelled: same wall-clock reading, new offset (the instant moves by the offset difference)"""
        if set(kw) != {"tzinfo"}:
            raise Unsupported("SymDatetime.replace(%s)" % ",".join(sorted(kw)))
        tz = kw["tzinfo"]
        if tz is None:
            return SymNaive(self._local_us())
        if isinstance(tz, _SymTz):
            newoff = tz.off
        else:
            newoff = Poly.const(tz.utcoffset(None) // timedelta(minutes=1))
        return SymDatetime(self._local_us() - newoff.scale(US_PER_MIN), newoff)

    def time(self):
        return SymTime(self._local_us() - floordiv(self._local_us(), US_PER_DAY, "ord").scale(US_PER_DAY))

    def timetz(self):
        raise Unsupported("SymDatetime.timetz is not modelled")

    def toordinal(self):
        return self.date().toordinal()

    def concrete(self):
        us = engine.cur().value_of(self.us)
        off = engine.cur().value_of(self.off)
        return (_E + timedelta(microseconds=us)).astimezone(timezone(timedelta(minutes=off)))

    def strftime(self, fmt):
        if fmt in _ORDERED_FORMATS:
            return SymStr([TimePart(self._local_us(), fmt)])
        return SymStr([TsFmt(self, fmt)])

    def isoformat(self, sep="T", timespec="auto"):
        """a string that parses back to this instant, truncated to the requested resolution"""
        unit = {"auto": 1, "microseconds": 1, "milliseconds": 1000, "seconds": 10**6, "minutes": 60 * 10**6, "hours": 3600 * 10**6}.get(timespec)
        if unit is None:
            raise Unsupported("isoformat(timespec=%r)" % (timespec,))
        if unit == 1:
            return SymTsStr(self)
        loc = self._local_us()
        trunc = floordiv(loc, unit, "trunc").scale(unit)
        return SymTsStr(SymDatetime(trunc - self.off.scale(US_PER_MIN), self.off))

    def __vf_format__(self, spec):
        if spec == "":
            return SymTsStr(self)
        return self.strftime(spec)

    def __format__(self, spec):
        return "<symts>"

    def __str__(self):
        return SymTsStr(self)

    __repr__ = __str__

    def eval(self, model):
        us = self.us.eval(model)
        off = self.off.eval(model)
        return (_E + timedelta(microseconds=us)).astimezone(timezone(timedelta(minutes=off)))


_block_inherited(SymDatetime, datetime, {"eval", "concrete", "min", "max", "resolution"})


class SymNaive(datetime):
    """naive (tz-less) symbolic datetime: a wall-clock reading in microseconds since 1970-01-01T00:00 of that clock;
    only ordering against other naive datetimes is modelled"""

    def __new__(cls, local_us):
        self = datetime.__new__(cls, 2000, 1, 1)
        self.lus = local_us
        return self

    @staticmethod
    def _val(o):
        if isinstance(o, SymNaive):
            return o.lus
        if isinstance(o, SymDatetime):
            raise TypeError("can't compare offset-naive and offset-aware datetimes")
        if isinstance(o, datetime):
            if o.tzinfo is not None:
                raise TypeError("can't compare offset-naive and offset-aware datetimes")
            return Poly.const((o - datetime(1970, 1, 1)) // timedelta(microseconds=1))
        return None

    def _cmp(self, op, o):
        u = SymNaive._val(o)
        if u is None:
            if op == "==":
                return False
            raise TypeError("can't compare datetime with %s" % type(o).__name__)
        return _c(self.lus, op, u)

    def __lt__(self, o):
        return self._cmp("<", o)

    def __le__(self, o):
        return self._cmp("<=", o)

    def __gt__(self, o):
        return self._cmp(">", o)

    def __ge__(self, o):
        return self._cmp(">=", o)

    def __eq__(self, o):
        return self._cmp("==", o)

    def __ne__(self, o):
        return not self._cmp("==", o)

    def __hash__(self):
        raise Unsupported("hash of a symbolic datetime")

    @property
    def tzinfo(self):
        return None

    def date(self):
        return SymDate(floordiv(self.lus, US_PER_DAY, "ord") + _EPOCH_ORD)


_block_inherited(SymNaive, datetime, {"min", "max", "resolution"})


class SymTime:
    """naive wall-clock time of day (microseconds since local midnight)"""

    def __init__(self, us):
        self.us = us

    def _cmp(self, op, o):
        if isinstance(o, SymTime):
            return _c(self.us, op, o.us)
        import datetime as _dt  # pylint: disable=import-outside-toplevel

        if isinstance(o, _dt.time) and o.tzinfo is None:
            return _c(self.us, op, Poly.const(((o.hour * 60 + o.minute) * 60 + o.second) * 10**6 + o.microsecond))
        return NotImplemented

    def __lt__(self, o):
        return self._cmp("<", o)

    def __le__(self, o):
        return self._cmp("<=", o)

    def __gt__(self, o):
        return self._cmp(">", o)

    def __ge__(self, o):
        return self._cmp(">=", o)

    def __eq__(self, o):
        r = self._cmp("==", o)
        return False if r is NotImplemented else r

    def __ne__(self, o):
        return not self.__eq__(o)

    __hash__ = None


class _SymTz:
    def __init__(self, off):
        self.off = off

    def utcoffset(self, dt):
        return SymTimedelta(self.off.scale(US_PER_MIN))

    def __bool__(self):
        return True


class SymStr(str):
    """structured string: a list of parts (plain str or symbolic renderings)"""

    def __new__(cls, parts):
        merged = []
        for p in parts:
            if isinstance(p, SymStr):
                merged.extend(p.parts)
            elif type(p) is str and merged and type(merged[-1]) is str:  # pylint: disable=unidiomatic-typecheck
                merged[-1] += p
            elif isinstance(p, str) and type(p) is not str:  # pylint: disable=unidiomatic-typecheck
                merged.append(p)
            else:
                merged.append(p)
        self = str.__new__(cls, "".join(p if type(p) is str else "⟨%r⟩" % (p,) for p in merged))  # pylint: disable=unidiomatic-typecheck
        self.parts = merged
        return self

    def _cmp(self, o):
        if not isinstance(o, SymStr):
            raise Unsupported("comparison of a structured string with a plain one")
        if len(o.parts) != len(self.parts):
            raise Unsupported("comparison of structured strings of different shape")
        for a, b in zip(self.parts, o.parts):
            if isinstance(a, TimePart):
                if not isinstance(b, TimePart) or a.fmt != b.fmt:
                    raise Unsupported("comparison of structured strings of different shape")
                if _c(a.us, "<", b.us):
                    return -1
                if _c(a.us, ">", b.us):
                    return 1
            elif isinstance(a, IntFmt):
                # a zero-padded fixed-width rendering of a non-negative integer is ordered like the integer
                if not isinstance(b, IntFmt) or a.spec != b.spec or not (a.spec.startswith("0>") and a.spec[2:].isdigit()):
                    raise Unsupported("comparison of structured strings of different shape")
                lim = Poly.const(10 ** int(a.spec[2:]))
                for v in (a.v, b.v):
                    if v.den != 1 or not _c(v.p, ">=", Poly.const(0)) or not _c(v.p, "<", lim):
                        raise Unsupported("integer rendering wider than its field")
                if _c(a.v.p, "<", b.v.p):
                    return -1
                if _c(a.v.p, ">", b.v.p):
                    return 1
            elif type(a) is str and type(b) is str:  # pylint: disable=unidiomatic-typecheck
                if len(a) != len(b):
                    raise Unsupported("comparison of structured strings of different shape")
                if a != b:
                    return -1 if a < b else 1
            else:
                raise Unsupported("ordering of a structured string part %r" % (a,))
        return 0

    def __lt__(self, o):
        return self._cmp(o) < 0

    def __gt__(self, o):
        return self._cmp(o) > 0

    def __le__(self, o):
        return self._cmp(o) <= 0

    def __ge__(self, o):
        return self._cmp(o) >= 0

    def __eq__(self, o):
        if isinstance(o, str) and not isinstance(o, SymStr):
            if all(type(p) is str for p in self.parts):  # pylint: disable=unidiomatic-typecheck
                return "".join(self.parts) == o
            raise Unsupported("equality of a structured string with a plain one")
        if not isinstance(o, str):
            return False
        return self._cmp(o) == 0

    def __ne__(self, o):
        return not self.__eq__(o)

    def __hash__(self):
        # equal strings must hash alike: strings of one shape share a bucket and the container's == (symbolic, forking on
        # ties) decides; a string without symbolic parts hashes as the plain string it is
        if all(type(p) is str for p in self.parts):  # pylint: disable=unidiomatic-typecheck
            return hash("".join(self.parts))
        return hash(("symstr",) + tuple(type(p).__name__ for p in self.parts))

    def __add__(self, o):
        if isinstance(o, str):
            return SymStr(self.parts + [o])
        return NotImplemented

    def __radd__(self, o):
        if isinstance(o, str):
            return SymStr([o] + self.parts)
        return NotImplemented

    def __str__(self):
        return self

    def __format__(self, spec):
        if spec == "":
            return self
        raise Unsupported("format spec on a structured string")

    def __vf_format__(self, spec):
        if spec == "":
            return self
        raise Unsupported("format spec on a structured string")

    def __len__(self):
        raise Unsupported("len of a structured string")

    def __bool__(self):
        return True


_block_inherited(SymStr, str, {"parts"})


class SymTsStr(SymStr):
    """str(symbolic datetime): parsed back by the timestamp stub"""

    def __new__(cls, dt):
        self = SymStr.__new__(cls, [TsFmt(dt, "")])
        self.dt = dt
        return self

    # a string that parses to a tz-aware timestamp is never one of the fixed keywords it gets compared with
    # ("TABLE END", "", "in"/"out"/"intra", "__unknown"): equality with a plain string is False
    def __eq__(self, o):
        if isinstance(o, SymTsStr):
            if o.dt is self.dt:
                return True
            raise Unsupported("equality of two symbolic timestamp strings")
        return False

    def __ne__(self, o):
        return not self.__eq__(o)

    def __hash__(self):
        return 0x5EED

    def lower(self):
        return self

    def upper(self):
        return self

    def strip(self, chars=None):
        return self


def vf_fstr(*parts):
    """f-string replacement: exact for concrete parts, structured when a part is symbolic"""
    out = []
    sym = False
    for p in parts:
        if isinstance(p, str):
            out.append(p)
            sym = sym or isinstance(p, SymStr)
            continue
        value, conv, spec = p
        if conv == ord("r"):
            value = repr(value)
        elif conv == ord("s"):
            value = str(value)
        elif conv == ord("a"):
            value = ascii(value)
        if isinstance(spec, SymStr):
            raise Unsupported("symbolic format spec")
        f = getattr(type(value), "__vf_format__", None)
        if f is not None:
            r = f(value, spec)
            if len(parts) == 1:
                return r
            out.append(r)
            sym = sym or type(r) is not str  # pylint: disable=unidiomatic-typecheck
        elif isinstance(value, SymInt):
            out.append(SymStr([IntFmt(value, spec)]))
            sym = True
        else:
            out.append(format(value, spec))
    if not sym:
        return "".join(out)
    return SymStr(out)


def vf_combine(d, t, tzinfo=True):
    """datetime.combine replacement: exact for ordinary values; a symbolic date gives a symbolic datetime"""
    import datetime as _dt  # pylint: disable=import-outside-toplevel

    if not isinstance(d, SymDate):
        return _dt.datetime.combine(d, t) if tzinfo is True else _dt.datetime.combine(d, t, tzinfo=tzinfo)
    tz = t.tzinfo if tzinfo is True else tzinfo
    if isinstance(t, SymTime):
        raise Unsupported("datetime.combine with a symbolic time")
    if tz is None:
        tod0 = ((t.hour * 60 + t.minute) * 60 + t.second) * 10**6 + t.microsecond
        return SymNaive((d.o - _EPOCH_ORD).scale(US_PER_DAY) + tod0)
    off = tz.utcoffset(None) // timedelta(minutes=1)
    tod = ((t.hour * 60 + t.minute) * 60 + t.second) * 10**6 + t.microsecond
    us = (d.o - _EPOCH_ORD).scale(US_PER_DAY) + tod - off * US_PER_MIN
    return SymDatetime(us, off)


def vf_int(x, *a):
    """int() replacement: exact for ordinary values; a symbolic number is truncated toward zero symbolically"""
    if a:
        return int(x, *a)
    if isinstance(x, SymInt):
        if x.den == 1:
            return x
        if _c(x.p, ">=", Poly.const(0)):
            return SymInt(floordiv(x.p, x.den, "int"))
        return SymInt(-floordiv(-x.p, x.den, "int"))
    if isinstance(x, SymFloat):
        raise Unsupported("int() of a symbolic float")
    return int(x)


class FloatOf:
    """float(<symbolic decimal>): only formatting is modelled; the text stands for the exact value (parts carry the spec)"""

    def __init__(self, dec):
        self.dec = dec

    def __vf_format__(self, spec):
        from .vf_decimal import _Formatted  # pylint: disable=import-outside-toplevel

        return SymStr([_Formatted(self.dec, "float:" + spec)])

    def __float__(self):
        raise Unsupported("float of a symbolic decimal used as a number")


def vf_float(x):
    """float() replacement: exact for ordinary values; a symbolic decimal can only be formatted afterwards"""
    if getattr(x, "is_concrete", True) is False:
        return FloatOf(x)
    return float(x)


class IntFmt:
    def __init__(self, v, spec):
        self.v = v
        self.spec = spec

    def __repr__(self):
        return "<int:%s>" % self.spec
