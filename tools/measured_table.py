#!/venv/bin/python
"""prints a markdown table of what the last run of every check covered (from evidence/*.json)"""
import glob
import json
import os

V = os.path.dirname(os.path.dirname(os.path.abspath(__file__)))
print("| id | tier | jobs | symbolic paths | solver queries (sat / unsat / unknown) | solver s | traces re-run on real code | exhaustive | wall s |")
print("|---|---|---|---|---|---|---|---|---|")
tot = [0, 0, 0.0]
for f in sorted(glob.glob(os.path.join(V, "evidence", "C*.json"))):
    e = json.load(open(f))
    c = e["coverage"]
    s = c["solver"]
    print("| %s | %s | %d | %d | %d (%d / %d / %d) | %.0f | %d | %s | %.0f |" % (e["property_id"], e["tier"], c["jobs"], c["states"], s["queries"], s["sat"], s["unsat"], s["unknown"], s["solver_s"], c["traces_validated_against_impl"], "yes" if c["exhaustive"] else "no (%d prefixes left)" % c["unexplored_prefixes_at_budget"], e["wall_s"]))
    tot[0] += c["states"]
    tot[1] += s["queries"]
    tot[2] += e["wall_s"]
print("| total | | | %d | %d | | | | %.0f |" % (tot[0], tot[1], tot[2]))
