#!/venv/bin/python
"""prints the markdown table of seeded changes and which checks report them (from seeded/*/meta.json)"""
import glob
import json
import os

VERIF = os.path.dirname(os.path.dirname(os.path.abspath(__file__)))
print("| seed | breaks | change (needs to manifest) | reported by (quick tier) |")
print("|---|---|---|---|")
for f in sorted(glob.glob(os.path.join(VERIF, "seeded", "*", "meta.json"))):
    m = json.load(open(f))
    det = m.get("detected_by", {})
    parts = []
    for p, r in sorted(det.items()):
        parts.append("%s: %s" % (p, {0: "not reported", 1: "**VIOLATION**", 3: "inconclusive (exit 3)"}.get(r["exit"], "exit %s" % r["exit"])))
    summ = (m.get("summary") or "").replace("|", "/").replace("\n", " ")
    need = (m.get("needs_to_manifest") or "").replace("|", "/").replace("\n", " ")
    print("| %s | %s | %s *(%s)* | %s%s |" % (m.get("seed_id"), m.get("property"), summ[:170], need[:150], "; ".join(parts) or "not run", (" - " + m["note"]) if m.get("note") else ""))
