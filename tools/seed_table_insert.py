#!/venv/bin/python
"""re-generates the seeded-changes table inside DESIGN.md (between the SEED-TABLE markers)"""
import os
import subprocess

V = os.path.dirname(os.path.dirname(os.path.abspath(__file__)))
t = subprocess.run(["/venv/bin/python", os.path.join(V, "tools", "seed_table.py")], capture_output=True, text=True, check=True).stdout
s = open(os.path.join(V, "DESIGN.md")).read()
a, b = s.index("<!-- SEED-TABLE-BEGIN -->"), s.index("<!-- SEED-TABLE-END -->")
s = s[:a] + "<!-- SEED-TABLE-BEGIN -->\n" + t + s[b:]
open(os.path.join(V, "DESIGN.md"), "w").write(s)
