#!/venv/bin/python
"""Maintenance tool (not part of any check): verify a seeded breaking change in a scratch worktree and run checks on it.

  tools/seed.py verify <src_dir> <seed_id>      src_dir holds patch.diff, demo.py, meta.json -> copies to seeded/<seed_id>/ when confirmed
  tools/seed.py detect <seed_id> <PROP> [...]   applies seeded/<seed_id>/patch.diff to /repo, runs ./check PROP --tier quick, undoes it
"""
import json
import os
import shutil
import subprocess
import sys
import tempfile
import xml.etree.ElementTree as ET

VERIF = os.path.dirname(os.path.dirname(os.path.abspath(__file__)))
PY = "/venv/bin/python"


def sh(cmd, cwd=None, env=None, timeout=3600):
    p = subprocess.run(cmd, cwd=cwd, env=env, shell=isinstance(cmd, str), capture_output=True, text=True, timeout=timeout, check=False)
    return p.returncode, p.stdout + p.stderr


def passed_tests(wt):
    fd, xml = tempfile.mkstemp(suffix=".xml")
    os.close(fd)
    env = dict(os.environ, PYTHONPATH=wt + "/src")
    sh([PY, "-m", "pytest", "-q", "-p", "no:cacheprovider", "--timeout=900", "--continue-on-collection-errors", "--junitxml=" + xml], cwd=wt, env=env)
    out = set()
    for tc in ET.parse(xml).getroot().iter("testcase"):
        if not list(tc):
            out.add("%s::%s" % (tc.get("classname"), tc.get("name")))
    os.unlink(xml)
    return out


def verify(src, sid):
    base = set(json.load(open("/root/.vp/BASELINE.json"))["stable_pass"])
    wt = tempfile.mkdtemp(prefix="v-", dir="/tmp/wt")
    os.rmdir(wt)
    rc, out = sh(["git", "-C", "/repo", "worktree", "add", "--detach", wt, "HEAD", "-q"])
    assert rc == 0, out
    res = {}
    try:
        env = dict(os.environ, PYTHONPATH=wt + "/src", RP2_ROOT=wt)
        demo = os.path.join(src, "demo.py")
        rc, out = sh([PY, demo], cwd=wt, env=env)
        res["demo_clean_exit"] = rc
        rc2, out2 = sh(["git", "apply", os.path.join(src, "patch.diff")], cwd=wt)
        res["patch_applies"] = rc2 == 0
        if rc2 != 0:
            res["apply_error"] = out2[-500:]
        else:
            rc3, out3 = sh([PY, demo], cwd=wt, env=env)
            res["demo_patched_exit"] = rc3
            res["demo_patched_tail"] = out3[-600:]
            got = passed_tests(wt)
            res["tests_passed_with_patch"] = len(got)
            res["baseline_tests_missing"] = sorted(base - got)
            res["files_touched"] = [l.split(" b/")[-1] for l in open(os.path.join(src, "patch.diff")) if l.startswith("diff --git")]
    finally:
        sh(["git", "-C", "/repo", "worktree", "remove", "--force", wt])
        shutil.rmtree(wt, ignore_errors=True)
    ok = res.get("demo_clean_exit") == 0 and res.get("patch_applies") and res.get("demo_patched_exit") not in (0, None) and not res.get("baseline_tests_missing")
    res["confirmed"] = bool(ok)
    print(json.dumps(res, indent=1))
    if ok:
        dst = os.path.join(VERIF, "seeded", sid)
        os.makedirs(dst, exist_ok=True)
        for f in ("patch.diff", "demo.py"):
            shutil.copy(os.path.join(src, f), os.path.join(dst, f))
        meta = {}
        try:
            meta = json.load(open(os.path.join(src, "meta.json")))
        except Exception:  # pylint: disable=broad-except
            pass
        meta["seed_id"] = sid
        meta["confirmed_by"] = {"what_was_run": "scratch worktree of /repo HEAD: demo.py on the clean tree (exit 0), git apply patch.diff, demo.py (exit %s), pinned pytest suite (all %d baseline tests still pass)" % (res["demo_patched_exit"], len(base)), "repo_head": sh(["git", "-C", "/repo", "rev-parse", "--short", "HEAD"])[1].strip()}
        meta.setdefault("detected_by", {})
        json.dump(meta, open(os.path.join(dst, "meta.json"), "w"), indent=1)
    return 0 if ok else 1


def detect(sid, props):
    """runs the checks against a scratch worktree of /repo HEAD + the patch (VERIF_REPO_SRC), so /repo stays untouched;
    SEED_INPLACE=1 applies the patch to /repo itself instead (git apply / checkout), as the interface prescribes"""
    dst = os.path.join(VERIF, "seeded", sid)
    inplace = os.environ.get("SEED_INPLACE") == "1"
    env = dict(os.environ)
    if inplace:
        rc, out = sh(["git", "-C", "/repo", "status", "--porcelain", "--untracked-files=no"])
        assert out.strip() == "", "repo not clean: " + out
        rc, out = sh(["git", "-C", "/repo", "apply", os.path.join(dst, "patch.diff")])
        assert rc == 0, out
    else:
        wt = tempfile.mkdtemp(prefix="d-", dir="/tmp/wt")
        os.rmdir(wt)
        rc, out = sh(["git", "-C", "/repo", "worktree", "add", "--detach", wt, "HEAD", "-q"])
        assert rc == 0, out
        rc, out = sh(["git", "apply", os.path.join(dst, "patch.diff")], cwd=wt)
        assert rc == 0, out
        env["VERIF_REPO_SRC"] = wt + "/src"
    results = {}
    try:
        for p in props:
            rc, out = sh(["./check", p, "--tier", os.environ.get("SEED_TIER", "quick"), "--no-evidence"], cwd=VERIF, env=env, timeout=7200)
            lines = [l for l in out.splitlines() if l.startswith(("VIOLATION", "  job:", "HARNESS", "INCONCLUSIVE", "KNOWN", "OK ", p + " "))]
            results[p] = {"exit": rc, "lines": lines[:8]}
            print(sid, p, "exit", rc)
            for l in lines[:6]:
                print("   ", l[:300])
    finally:
        if inplace:
            sh(["git", "-C", "/repo", "checkout", "--", "."])
        else:
            sh(["git", "-C", "/repo", "worktree", "remove", "--force", wt])
            shutil.rmtree(wt, ignore_errors=True)
    mp = os.path.join(dst, "meta.json")
    meta = json.load(open(mp))
    for p, r in results.items():
        meta.setdefault("detected_by", {})[p] = {"exit": r["exit"], "tier": os.environ.get("SEED_TIER", "quick"), "how": "git -C /repo apply" if inplace else "scratch worktree + VERIF_REPO_SRC", "first_lines": r["lines"][:3]}
    json.dump(meta, open(mp, "w"), indent=1)
    return 0


if __name__ == "__main__":
    if sys.argv[1] == "verify":
        sys.exit(verify(sys.argv[2], sys.argv[3]))
    sys.exit(detect(sys.argv[2], sys.argv[3:]))
