#!/venv/bin/python
"""Sensitivity self-test (maintenance tool, not a registered check): every in-memory mutant of symx/mutants.py must be
reported (exit 1, reproduced on real code + mutation) by the check of each property it is listed to break.
Usage: tools/selftest.py [PROP ...]   -> prints a table and writes selftest_results.json"""
import json
import os
import subprocess
import sys
import time

VERIF = os.path.dirname(os.path.dirname(os.path.abspath(__file__)))
sys.path.insert(0, VERIF)
from symx.mutants import MUTANTS  # noqa: E402

want = set(a.upper() for a in sys.argv[1:])
res = {}
out_path = os.path.join(VERIF, "selftest_results.json")
if want and os.path.exists(out_path):
    res = json.load(open(out_path))  # partial run: keep the other entries
for name, (_mod, _old, _new, props) in MUTANTS.items():
    for p in props:
        if want and p not in want:
            continue
        t = time.time()
        pr = subprocess.run(["./check", p, "--tier", "quick", "--mutant", name, "--budget", "600"], cwd=VERIF, capture_output=True, text=True, timeout=3000, check=False)
        first = [l for l in pr.stdout.splitlines() if l.startswith(("VIOLATION", "  job:"))][:2]
        res["%s/%s" % (name, p)] = {"exit": pr.returncode, "killed": pr.returncode == 1, "wall_s": round(time.time() - t, 1), "first": first}
        print("%-28s %-4s exit=%d %5.0fs %s" % (name, p, pr.returncode, time.time() - t, (first[1].strip()[:140] if len(first) > 1 else "")), flush=True)
json.dump(res, open(out_path, "w"), indent=1, sort_keys=True)
k = sum(1 for v in res.values() if v["killed"])
print("killed %d of %d (mutant, property) pairs" % (k, len(res)))
