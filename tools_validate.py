import json, sys, glob
import jsonschema
m = json.load(open('/verif/MANIFEST.json'))
jsonschema.validate(m, json.load(open('/root/.vp/MANIFEST.schema.json')))
print('manifest ok:', [c['property_id'] for c in m['checks']], 'n/a:', [c['property_id'] for c in m.get('not_applicable', [])])
es = json.load(open('/root/.vp/EVIDENCE.schema.json'))
for f in sorted(glob.glob('/verif/evidence/*.json')):
    try:
        jsonschema.validate(json.load(open(f)), es); print('evidence ok', f)
    except Exception as e:
        print('EVIDENCE INVALID', f, str(e)[:300])
